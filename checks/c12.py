"""C12 - the SSI block Hankel/Toeplitz matrix has the prescribed lag, channel and block layout.

`ssi.build_hank` for the covariance methods is a bilinear map of (data, reference data). A bilinear map is
determined by its values on a basis, so it is evaluated on EVERY pair of unit impulses (channel a at time s,
reference b at time t) of every shape in the stated range and each value is judged against the layout the
statement prescribes. Bilinearity itself is checked on all pair sums / scalings of basis elements for the
smallest shapes. Larger shapes: payload records against a loop construction written from the statement. The
data-driven method: shape and the Gram identity of the orthogonal projection. `SSIResult.H` after a real run
is compared with `build_hank` of the bound data for every ordered reference list. Long records (record lengths
around and above 2**12 .. 2**17 samples, where an implementation may switch to another way of assembling the
same sums): the same loop construction / projection identity on a small lattice of lengths at both sides of
each power of two, methods x integer/float record types, and `SSIResult.H` after runs on such records.
Ill-conditioned (full-rank) past reference data for the data-driven method: designed integer-valued records whose
reference channels are nearly redundant / nearly delayed copies of each other / dominated by a large common component,
the small component being 2**-k of the large one (cond(Yp) = O(1) * 2**k up to about 1e7), judged by the same Gram
identity with the same tolerance against the projection evaluated in exact rational arithmetic (a float reference
computed from the normal equations is itself only good to eps*cond(Yp)**2), through `build_hank` and through a run.
Run parameters given as an object: ONE `SSIRunParams` object that reaches two algorithm objects (given to both at
construction, with `set_run_params`, assigned after construction, or handed on - itself or a copy - from an algorithm that
has run to an algorithm on another setup), both run orders of SSIcov / SSIdat and twice the same class, with and without a
requested method: each `SSIResult.H` against `build_hank` of the records bound to that algorithm with the method its class
stands for (or the requested one), and the object's br / method / ref_ind against a snapshot taken before the runs.

What the statement leaves open is left open here:
  * the sign convention of the lag (only: the same in every block of one matrix),
  * which products are averaged (the averaging window) - the loop construction and the projection identity
    use records that are zero near both ends, so that every product at every lag lies inside any window,
  * the normalisation, up to "it is an average": one positive weight per lag; weight x number of averaged
    products in [1/2, 1] on the basis (the library divides N-1 products by N), within a factor 2 of 1/Ndat on
    long records; one positive scale for the projection Gram matrix.
"""
import itertools

import numpy as np

from mc import payload
from mc.core import Tally

ID = "C12"
TECHNIQUE = ("exhaustive evaluation of the bilinear map on a complete basis (all pairs of unit impulses) for every "
             "shape in the stated range, oracle on every value; exhaustive pair-sum/scaling bilinearity on the smallest "
             "shapes; lattice of larger shapes against an independent loop construction and the projection Gram identity; "
             "SSIResult.H after real runs over every ordered reference list; long records (lengths at both sides of "
             "2**12..2**17 and multiples) against the same loop construction / projection identity; designed "
             "ill-conditioned past reference data (three families x conditioning levels) against the projection "
             "evaluated in exact rational arithmetic; SSIResult.H after real runs of two algorithm objects that received ONE "
             "run-parameter object (five ways of sharing / handing on x ordered class pairs x requested method x every ordered "
             "reference list); every matrix is copied at the moment it is read (two results alive at once) and on every data-driven "
             "lattice point the matrix returned by an earlier call is compared with itself after a later call on other records of the same shape")
LEVEL_TEXT = ("bounded-exhaustive: inside the stated shape range the covariance-method map is decided completely (a "
              "bilinear map is fixed by its values on a basis, and bilinearity is checked exhaustively on the smallest "
              "shapes); outside it, and for the data-driven method, a finite lattice around a payload alphabet, "
              "including a lattice of long records (number of averaged products 2**k-1 .. 2**k+2 for k in 12..17, "
              "5000, 20000, 70001 and 3*2**16+50 samples; 1..3 channels, br 1..3) and a lattice of ill-conditioned "
              "full-rank reference data for the data-driven method (3 families x small/large component ratio 2**-k, "
              "k in 0..20, i.e. cond(Yp) from ~1e1 to ~1e7, x 4 shapes x 2 record lengths x float/int64 records x "
              "build_hank / SSIdat.run); runs are explored with keyword-argument construction and with one run-parameter "
              "object reaching two algorithms (5 sharing forms x both run orders of SSIcov/SSIdat x every ordered reference "
              "list of 1..4 channels with no method requested; 4 requested methods x 4 ordered class pairs x 2 run routes on "
              "6 reference lists)")
RULE = ("basis part: one case = (channels l, references r, block rows br, record length, method, channel a, "
        "reference b, impulse-time difference s-t); non-trivial iff |s-t| equals the lag of at least one block, so "
        "that the prescribed matrix is non-zero; cases differing only in the absolute impulse time are NOT counted "
        "as distinct. Other parts: one case = one lattice point (part, shape, method, variant); all are non-trivial "
        "(dense payload records); ill-conditioned part: one case = (lattice point, record form, route); shared run-parameter "
        "part: one case = (lattice point, first / second algorithm of the pair)")
ASSUMPTIONS = [
    "numpy dot/solve/cond are the reference operations (trusted)",
    "observed matrices (SSIResult.H, return values) and reference matrices are copied at the moment they are read, so that a later call into the "
    "library (including the oracle's own reference calls) cannot rewrite what was observed; a matrix returned by build_hank belongs to the caller: "
    "a later call on other records must leave it unchanged and must not share its memory",
    "the sign of the lag, the averaging window and the normalisation are not fixed by the statement: any consistent "
    "sign, any window and any positive per-lag weight that is an average (see module docstring) are accepted",
    "bilinearity is checked on basis pair sums and scalings only; this is exact for maps polynomial of degree <= 2 "
    "per argument",
    "records of the loop-construction and projection parts are zero in the first and last 2*br+4 samples",
    "long records are explored on a lattice of lengths only (both sides of powers of two 2**12..2**17, 5000, 20000, 70001, "
    "3*2**16+50), with 1..3 channels and br 1..3, as coloured (first-order recursive) mixed payload records held as "
    "float64, int16 or int32; lengths between the lattice points and above 3*2**16+50 (thorough: 2**18+2**16-1) are not "
    "explored; a seam within 2*br+4 samples of the end of a record is invisible (the records vanish there)",
    "ill-conditioned past reference data (data-driven method) are explored on designed records only: reference channels "
    "= large component + 2**-k x independent small components (nearly redundant references; a reference that is nearly "
    "a delayed copy of another; a large component common to all references), k in {0, 7, 14, 17, 20} (thorough: 11 levels "
    "up to 20), so that cond(Yp) = O(1) * 2**k - controlled by construction and measured from the singular values of the "
    "designed Yp, never from library output; coloured payload signals rounded to integers, records with more samples than "
    "stacked rows, zero in the first and last 2*br+4 samples (hence no constant offset: a large DC level is represented "
    "by the large common component). Python integer / Fraction arithmetic is exact (trusted), the reference Gram matrix "
    "is rounded once to float64. Cases with cond(Yp) > 5e7 are skipped by a ground-truth guard (none in the lattice) and "
    "levels above 2**20 (cond(Yp) above ~1.5e7) are not explored: there the error of a backward-stable factorisation of "
    "the data, ~eps*cond(Yp) (measured on the library: up to 9e-11 at level 2**-20, 1.6e-10 at 2**-21, 2.4e-10 at cond 6e7, "
    "1.2e-9 at 4e8), approaches the tolerance 1e-9 of the Gram identity, which is not loosened; rank-deficient "
    "reference data are outside the statement (the projection is not unique)",
    "which method an algorithm object stands for: SSIcov builds the moment matrix (cov_mm) unless its run parameters request "
    "another method, SSIdat the data-driven matrix; a run-parameter object that requests a covariance method and is given to an "
    "SSIdat is run but its matrix is not judged (the statement does not say). A run-parameter object is shared between TWO "
    "algorithm objects only (SSIcov / SSIdat of single setups, ordmax 2, br 3 [thorough: 2, 3, 5], 60 samples, calc_unc off), by "
    "`run_params=`, `set_run_params()`, attribute assignment, or handed on (itself / `model_copy()`) after the first algorithm has "
    "run on another setup; mpe calls between the runs, three or more algorithms on one object and the multi-setup classes are not "
    "explored",
]

TOL_EXACT = 1e-12
TOL_LOOP = 1e-10
TOL_GRAM = 1e-9
COND_MAX = 1e8


def lag_of(method, br, i, j):
    return i + j + 1 if method == "cov_mm" else br + i - j


def _hank(Y, Yref, br, method):
    from pyoma2.functions import ssi

    # a copy: neither a reference value nor an observed matrix may live in memory that a later library call could write to
    return np.array(ssi.build_hank(Y, Yref, br, method)[0], copy=True)


def later_call_keeps_earlier_matrix(t, case, Y, Yref, br, method, label):
    """The matrix RETURNED by an earlier call (as the caller holds it - no copy) must still be that matrix after a later call on other
    records of the same shape and type: two results alive at once (two algorithm objects, results collected and compared afterwards)."""
    from pyoma2.functions import ssi

    first = ssi.build_hank(Y, Yref, br, method)[0]
    snap = np.array(first, copy=True)
    Y2 = np.ascontiguousarray(Y[:, ::-1])                       # the records played backwards: same shape, same type, other lags
    second = ssi.build_hank(Y2, Y2[:Yref.shape[0]] if Yref.shape[0] < Y.shape[0] else Y2, br, method)[0]
    t.evaluations += 2
    t.transitions += 1
    if not (np.array_equal(np.asarray(first), snap) and not np.shares_memory(np.asarray(first), np.asarray(second))):
        t.violation(f"{label}:earlier-matrix-changed-by-a-later-call:{method}",
                    f"build_hank({method!r}) on records of shape {Y.shape}: the matrix returned by the first call "
                    + ("shares memory with the matrix returned by a later call on other records of the same shape"
                       if np.shares_memory(np.asarray(first), np.asarray(second)) else "changed") +
                    f"; max change {float(np.max(np.abs(np.asarray(first) - snap))):.3g}", case)
    else:
        t.outcomes[f"{label}:earlier-matrix-kept-after-later-call:{method}"] += 1


# ------------------------------------------------------------------------------------------------
# part 1: the map on the impulse basis

def basis_config(cfg, collect=None):
    """All l*Nd x r*Nd impulse pairs of one shape. Returns a Tally; `collect` (dict) receives B(E,F) if given."""
    idx, l, r, br, Nd, method = cfg
    t = Tally()
    t.states = 1
    case = {"part": "basis", "cfg": list(cfg)}
    nb = br + 1
    want_shape = (nb * l, nb * r)
    lag = np.array([[lag_of(method, br, i, j) for j in range(nb)] for i in range(nb)])
    lagset = set(int(x) for x in np.unique(lag))
    cnt = np.zeros((2, nb, nb), dtype=int)          # [sign, i, j] number of non-zero basis values
    cnt_e = np.zeros(want_shape, dtype=int)          # per matrix entry: number of impulse pairs it responds to
    wmin = np.full(want_shape, np.inf)               # per matrix entry: smallest / largest non-zero value
    wmax = np.full(want_shape, -np.inf)
    lag_e = np.kron(lag, np.ones((l, r), dtype=int))
    Y = np.zeros((l, Nd))
    Yr = np.zeros((r, Nd))
    for a in range(l):
        for s in range(Nd):
            Y[a, s] = 1.0
            for b in range(r):
                for tt in range(Nd):
                    Yr[b, tt] = 1.0
                    d = s - tt
                    try:
                        H = _hank(Y, Yr, br, method)
                    except Exception as e:
                        t.evaluations += 1
                        t.violation(f"raises:{type(e).__name__}:build_hank:{method}",
                                    f"build_hank raised {type(e).__name__}: {e} on unit impulses l={l} r={r} br={br} Ndat={Nd}",
                                    dict(case, pair=[a, s, b, tt]))
                        Yr[b, tt] = 0.0
                        Y[a, s] = 0.0
                        return t
                    Yr[b, tt] = 0.0
                    t.evaluations += 1
                    t.transitions += 1
                    t.validated += 1
                    if abs(d) in lagset:
                        t.nontrivial.add((idx, a, b, d))
                    if H.shape != want_shape:
                        t.violation(f"basis:shape:{method}",
                                    f"{method} l={l} r={r} br={br} Ndat={Nd}: shape {H.shape}, the statement prescribes "
                                    f"(br+1)*l x (br+1)*r = {want_shape}", dict(case, pair=[a, s, b, tt]))
                        Y[a, s] = 0.0
                        return t
                    if collect is not None:
                        collect[(a, s, b, tt)] = H.copy()
                    rows, cols = np.nonzero(H)
                    if rows.size == 0:
                        t.outcomes["basis:zero-matrix"] += 1
                        continue
                    t.outcomes["basis:non-zero-matrix"] += 1
                    for row, col in zip(rows.tolist(), cols.tolist()):
                        v = float(H[row, col])
                        i, aa = divmod(row, l)
                        j, bb = divmod(col, r)
                        if v != v or v in (float("inf"), float("-inf")):
                            t.violation(f"basis:non-finite:{method}",
                                        f"{method} l={l} r={r} br={br} Ndat={Nd}: non-finite entry for impulses (ch {a}, t {s}) x (ref {b}, t {tt})",
                                        dict(case, pair=[a, s, b, tt]))
                            continue
                        if aa != a or bb != b:
                            t.violation(f"basis:wrong-channel:{method}",
                                        f"{method} l={l} r={r} br={br} Ndat={Nd}: impulse in channel {a} / reference {b} appears in "
                                        f"entry (block {i}, channel {aa}; block {j}, reference {bb})", dict(case, pair=[a, s, b, tt]))
                            continue
                        L = int(lag[i, j])
                        if L == 0:
                            ok, sg = d == 0, 0
                        elif d == L:
                            ok, sg = True, 0
                        elif d == -L:
                            ok, sg = True, 1
                        else:
                            ok, sg = False, 0
                        if not ok:
                            t.violation(f"basis:wrong-lag:{method}",
                                        f"{method} l={l} r={r} br={br} Ndat={Nd}: block ({i},{j}) must hold lag {L} only, but it responds "
                                        f"to impulses at s={s}, t={tt} (s-t={d})", dict(case, pair=[a, s, b, tt]))
                            continue
                        cnt[sg, i, j] += 1
                        cnt_e[row, col] += 1
                        if v < wmin[row, col]:
                            wmin[row, col] = v
                        if v > wmax[row, col]:
                            wmax[row, col] = v
            Y[a, s] = 0.0
    if t.violations:
        return t
    # whole-shape judgements
    empty = np.argwhere(cnt_e == 0)
    if empty.size:
        row, col = (int(x) for x in empty[0])
        t.violation(f"basis:entry-empty:{method}",
                    f"{method} l={l} r={r} br={br} Ndat={Nd}: entry (block {row // l}, channel {row % l}; block {col // r}, reference {col % r}) "
                    f"(lag {int(lag_e[row, col])}) is zero for every impulse pair", case)
        return t
    nz = lag != 0
    plus = bool(np.any(cnt[0][nz] > 0))
    minus = bool(np.any(cnt[1][nz] > 0))
    if plus and minus:
        t.violation(f"basis:mixed-sign:{method}",
                    f"{method} l={l} r={r} br={br} Ndat={Nd}: blocks use both s-t=+lag and s-t=-lag:\n+:{cnt[0].tolist()}\n-:{cnt[1].tolist()}", case)
        return t
    t.outcomes[f"basis:sign:{method}:{'s-t=+lag' if plus else 's-t=-lag'}"] += 1
    # one positive weight per lag, uniform over the averaged products
    for L in sorted(lagset):
        m = lag_e == L
        lo, hi = float(wmin[m].min()), float(wmax[m].max())
        t.err("basis:weight-spread-rel", (hi - lo) / abs(hi) if hi else 0.0)
        if not (lo > 0 and hi - lo <= TOL_EXACT * hi):
            t.violation(f"basis:weight-not-uniform:{method}",
                        f"{method} l={l} r={r} br={br} Ndat={Nd}: the non-zero weights of lag {L} range over [{lo!r}, {hi!r}] "
                        f"(one positive weight per lag required)", case)
            return t
    # it is an average: weight * number of averaged products in [1/2, 1]
    norm = wmax * cnt_e
    t.err("basis:|1-weight*products|", float(np.max(np.abs(1 - norm))))
    bad = np.argwhere((norm < 0.5 - 1e-9) | (norm > 1 + 1e-9))
    if bad.size:
        row, col = (int(x) for x in bad[0])
        t.violation(f"basis:normalisation:{method}",
                    f"{method} l={l} r={r} br={br} Ndat={Nd}: entry ({row},{col}) (block {row // l},{col // r}) sums {cnt_e[row, col]} products with weight "
                    f"{wmax[row, col]!r} (weight x products = {norm[row, col]:.4g}, an average needs [0.5, 1])", case)
        return t
    t.outcomes[f"basis:layout-as-stated:{method}"] += 1
    if idx % 37 == 0:
        t.sample({"part": "basis", "l": l, "r": r, "br": br, "Ndat": Nd, "method": method,
                  "sign": "s-t=+lag" if plus else "s-t=-lag", "impulse_pairs": int(l * r * Nd * Nd),
                  "products_averaged_per_entry(block row 0, one per block column)": cnt_e[0, ::r].tolist(),
                  "weight(block row 0, one per block column)": wmax[0, ::r].tolist()})
    return t


# ------------------------------------------------------------------------------------------------
# part 2: bilinearity on pair sums and scalings of basis elements

SCALES = (-2.0, 0.5, 3.0)


def bilin_config(cfg):
    idx, l, r, br, Nd, method = cfg
    t = Tally()
    t.states = 1
    case = {"part": "bilin", "cfg": list(cfg)}
    B = {}
    tb = basis_config(cfg, collect=B)
    if tb.violations:
        # the basis part reports these; nothing to compare against here
        t.not_judged += 1
        return t
    ys = [(a, s) for a in range(l) for s in range(Nd)]
    rs = [(b, tt) for b in range(r) for tt in range(Nd)]
    scale = max(float(np.max(np.abs(h))) for h in B.values()) or 1.0

    def E(elems, shape):
        M = np.zeros(shape)
        for (c, u), w in elems:
            M[c, u] += w
        return M

    def judge(kind, H, want, what):
        t.evaluations += 1
        t.transitions += 1
        t.validated += 1
        t.nontrivial.add((idx, kind, what))
        if H.shape != want.shape:
            err = float("inf")
        else:
            err = float(np.max(np.abs(H - want))) / scale
        t.err(f"bilin:{kind}", err)
        if not err <= TOL_EXACT:
            t.violation(f"bilin:{kind}:{method}",
                        f"{method} l={l} r={r} br={br} Ndat={Nd}: {kind} fails on {what}: deviation {err:.3g} of the largest basis value",
                        dict(case, what=list(what)))
        else:
            t.outcomes[f"bilin:{kind}:ok"] += 1

    try:
        # additivity in the first argument: every unordered pair of basis elements x every reference basis element
        for (e1, e2) in itertools.combinations(range(len(ys)), 2):
            Y = E([(ys[e1], 1.0), (ys[e2], 1.0)], (l, Nd))
            for f in range(len(rs)):
                Yr = E([(rs[f], 1.0)], (r, Nd))
                judge("additive-in-data", _hank(Y, Yr, br, method), B[ys[e1] + rs[f]] + B[ys[e2] + rs[f]], (e1, e2, f))
        # additivity in the second argument
        for (f1, f2) in itertools.combinations(range(len(rs)), 2):
            Yr = E([(rs[f1], 1.0), (rs[f2], 1.0)], (r, Nd))
            for e in range(len(ys)):
                Y = E([(ys[e], 1.0)], (l, Nd))
                judge("additive-in-reference", _hank(Y, Yr, br, method), B[ys[e] + rs[f1]] + B[ys[e] + rs[f2]], (e, f1, f2))
        # homogeneity per argument and jointly
        for e in range(len(ys)):
            for f in range(len(rs)):
                base = B[ys[e] + rs[f]]
                for k, c in enumerate(SCALES):
                    Y1 = E([(ys[e], 1.0)], (l, Nd))
                    R1 = E([(rs[f], 1.0)], (r, Nd))
                    judge("homogeneous-in-data", _hank(c * Y1, R1, br, method), c * base, (e, f, k))
                    judge("homogeneous-in-reference", _hank(Y1, c * R1, br, method), c * base, (e, f, k))
                    c2 = SCALES[(k + 1) % len(SCALES)]
                    judge("homogeneous-jointly", _hank(c * Y1, c2 * R1, br, method), c * c2 * base, (e, f, k))
    except Exception as e:
        t.violation(f"raises:{type(e).__name__}:build_hank:{method}",
                    f"build_hank raised {type(e).__name__}: {e} on sums/scalings of impulses l={l} r={r} br={br} Ndat={Nd}", case)
    return t


# ------------------------------------------------------------------------------------------------
# part 3: larger shapes, payload records, loop construction from the statement / projection identity

def padded(seed, tag, rows, Nd, br):
    m = 2 * br + 4
    Y = np.zeros((rows, Nd))
    Y[:, m:Nd - m] = payload.normal(seed, tag, (rows, Nd - 2 * m))
    return Y


def loop_cov(Y, Yr, L, sigma):
    """C[a,b] = sum_u Y[a, u + sigma*L] * Yr[b, u] over every u for which both samples exist (loop over a, b)."""
    l, Nd = Y.shape
    r = Yr.shape[0]
    sh = sigma * L
    u0, u1 = max(0, -sh), min(Nd, Nd - sh)
    C = np.zeros((l, r))
    for a in range(l):
        for b in range(r):
            C[a, b] = float(np.dot(Y[a, u0 + sh:u1 + sh], Yr[b, u0:u1]))
    return C


LONG_DTYPES = ("float64", "int16", "int32")


def padded_long(seed, tag, rows, Nd, br, dtype):
    """Long record: coloured (y[n] = 0.7 y[n-1] + x[n] on the payload alphabet) and cyclically mixed rows, zero in the
    first and last 2*br+4 samples; integer types hold round(900 y) / round(2e6 y) (raw counts)."""
    from scipy.signal import lfilter

    m = 2 * br + 4
    x = payload.normal(seed, tag, (rows, Nd - 2 * m))
    f = lfilter([1.0], [1.0, -0.7], x, axis=1) * (1 - 0.49) ** 0.5      # y[n] = x[n] + 0.7 y[n-1], unit variance
    if rows > 1:
        f = f + 0.5 * np.roll(f, 1, axis=0)
    Y = np.zeros((rows, Nd))
    Y[:, m:Nd - m] = f
    if dtype != "float64":
        Y = np.round(Y * (900.0 if dtype == "int16" else 2.0e6)).astype(dtype)
    return Y


def records(seed, cfg):
    if len(cfg) > 7:
        idx, l, r, br, Nd, method, variant, dtype = cfg
        Y = padded_long(seed, f"c12/long/{l}/{br}/{Nd}/Y", l, Nd, br, dtype)
        if variant == "refs-are-first-channels":
            Yr = Y[:r].copy()
        elif variant == "refs-are-last-channels-reversed":
            Yr = Y[::-1][:r].copy()
        else:
            Yr = padded_long(seed, f"c12/long/{l}/{r}/{br}/{Nd}/R", r, Nd, br, dtype)
        return Y, Yr
    idx, l, r, br, Nd, method, variant = cfg
    Y = padded(seed, f"c12/pad/{l}/{br}/{Nd}/Y", l, Nd, br)
    if variant == "refs-are-first-channels":
        Yr = Y[:r].copy()
    elif variant == "refs-are-last-channels-reversed":
        Yr = Y[::-1][:r].copy()
    else:
        Yr = padded(seed, f"c12/pad/{l}/{r}/{br}/{Nd}/R", r, Nd, br)
    return Y, Yr


def padded_cov_config(item):
    seed, cfg = item
    idx, l, r, br, Nd, method, variant = cfg[:7]
    # long-record lattice points carry the record type as an 8th element; same judgement, own class keys and counters
    pre = "long:" if len(cfg) > 7 else ""
    t = Tally()
    t.states = 1
    case = {"part": "loop", "cfg": list(cfg), "seed": seed}
    Y, Yr = records(seed, cfg)
    nb = br + 1
    try:
        H = _hank(Y, Yr, br, method)
        if pre:
            # the matrix is judged on the numbers of the record (held as floats)
            Y, Yr = Y.astype(float), Yr.astype(float)
    except Exception as e:
        t.evaluations += 1
        t.violation(f"raises:{type(e).__name__}:build_hank:{method}", f"build_hank raised {type(e).__name__}: {e} on l={l} r={r} br={br} Ndat={Nd}"
                    + (f" ({cfg[7]} record)" if pre else ""), case)
        return t
    t.evaluations += 1
    t.transitions += 1
    t.validated += 1
    t.nontrivial.add((pre + "loop", idx))
    if pre:
        Nprod = Nd - 2 * br - 1
        k = int(round(np.log2(Nprod)))
        side = "below" if Nprod < 2 ** k else "at" if Nprod == 2 ** k else "above"
        t.outcomes[f"long:records:{method}:products-{side}-2**{k}" if abs(Nprod - 2 ** k) <= 2 else f"long:records:{method}:products-other"] += 1
        t.outcomes[f"long:records-as-{cfg[7]}:{method}"] += 1
    if H.shape != (nb * l, nb * r):
        t.violation(f"{pre}loop:shape:{method}", f"{method} l={l} r={r} br={br} Ndat={Nd}: shape {H.shape} instead of {(nb * l, nb * r)}", case)
        return t
    lags = sorted({lag_of(method, br, i, j) for i in range(nb) for j in range(nb)})
    verdicts = {}
    for sigma in (+1, -1):
        worst, wbad, info = 0.0, None, None
        for L in lags:
            C = loop_cov(Y, Yr, L, sigma)
            blocks = [H[i * l:(i + 1) * l, j * r:(j + 1) * r] for i in range(nb) for j in range(nb) if lag_of(method, br, i, j) == L]
            den = float(np.sum(C * C))
            w = sum(float(np.sum(Bk * C)) for Bk in blocks) / (len(blocks) * den)
            res = max(float(np.max(np.abs(Bk - w * C))) for Bk in blocks) / (abs(w) * float(np.max(np.abs(C))) or 1.0)
            if not (w > 0 and 0.5 <= w * Nd <= 2.0) and wbad is None:
                wbad = (L, w)
            if not res <= worst:
                worst, info = res, (L, w)
        verdicts[sigma] = (worst, wbad, info)
    passing = [s for s in (+1, -1) if verdicts[s][0] <= TOL_LOOP and verdicts[s][1] is None]
    fitting = [s for s in (+1, -1) if verdicts[s][0] <= TOL_LOOP]
    best = passing[0] if passing else fitting[0] if fitting else min(
        verdicts, key=lambda s: verdicts[s][0] if verdicts[s][0] == verdicts[s][0] else float("inf"))
    worst, wbad, info = verdicts[best]
    t.err(f"{pre}loop:residual:{method}", worst)
    if not worst <= TOL_LOOP:
        t.violation(f"{pre}loop:mismatch:{method}",
                    f"{method} l={l} r={r} br={br} Ndat={Nd} ({variant}): no per-lag weight makes the blocks equal to the lagged "
                    f"cross-correlation sums of the statement; best sign s-t={'+' if best > 0 else '-'}lag leaves a relative residual "
                    f"{worst:.3g} (lag {info[0] if info else '?'}); other sign {verdicts[-best][0]:.3g}", case)
    elif wbad is not None:
        t.violation(f"{pre}loop:normalisation:{method}",
                    f"{method} l={l} r={r} br={br} Ndat={Nd}: lag {wbad[0]} carries weight {wbad[1]!r}, not an average over about Ndat products "
                    f"(weight x Ndat = {wbad[1] * Nd:.4g})", case)
    else:
        t.outcomes[f"{pre}loop:equal:{method}:{'either-sign' if len(passing) == 2 else 's-t=+lag' if best > 0 else 's-t=-lag'}"] += 1
        if idx % (13 if pre else 11) == 0:
            t.sample(dict({"part": pre + "loop", "l": l, "r": r, "br": br, "Ndat": Nd, "method": method, "variant": variant, "residual": worst},
                          **({"record_type": cfg[7]} if pre else {})))
    return t


def dat_config(item):
    seed, cfg = item
    idx, l, r, br, Nd, method, variant = cfg[:7]
    pre = "long:" if len(cfg) > 7 else ""
    t = Tally()
    t.states = 1
    case = {"part": "dat", "cfg": list(cfg), "seed": seed}
    Yraw, Yrraw = records(seed, cfg)
    Y, Yr = (Yraw.astype(float), Yrraw.astype(float)) if pre else (Yraw, Yrraw)
    nb = br + 1
    # stacked future (all channels, block i at time u+1+i) and past reference (block j at time u-j) data matrices over every u
    us = np.arange(br, Nd - br - 1)
    Yf = np.vstack([Y[:, us + 1 + i] for i in range(nb)])
    Yp = np.vstack([Yr[:, us - j] for j in range(nb)])
    Gp = Yp @ Yp.T
    if not np.linalg.cond(Gp) <= COND_MAX:
        t.skipped_by_guard += 1
        t.outcomes[pre + "dat:guard:past-not-full-rank"] += 1
        return t
    X = Yf @ Yp.T
    G = X @ np.linalg.solve(Gp, X.T)
    try:
        H = _hank(Yraw, Yrraw, br, "dat")
    except Exception as e:
        t.evaluations += 1
        t.violation(f"raises:{type(e).__name__}:build_hank:dat", f"build_hank raised {type(e).__name__}: {e} on l={l} r={r} br={br} Ndat={Nd}", case)
        return t
    t.evaluations += 1
    t.transitions += 1
    t.validated += 1
    t.nontrivial.add((pre + "dat", idx))
    if pre:
        Nprod = Nd - 2 * br - 1
        k = int(round(np.log2(Nprod)))
        side = "below" if Nprod < 2 ** k else "at" if Nprod == 2 ** k else "above"
        t.outcomes[f"long:records:dat:products-{side}-2**{k}" if abs(Nprod - 2 ** k) <= 2 else "long:records:dat:products-other"] += 1
        t.outcomes[f"long:records-as-{cfg[7]}:dat"] += 1
    if H.shape != (nb * l, nb * r):
        t.violation(pre + "dat:shape", f"dat l={l} r={r} br={br} Ndat={Nd}: shape {H.shape} instead of (br+1)*l x (br+1)*r = {(nb * l, nb * r)}", case)
        return t
    HH = H @ H.T
    c = float(np.sum(HH * G) / np.sum(G * G))
    res = float(np.max(np.abs(HH - c * G)) / (abs(c) * np.max(np.abs(G)) or 1.0))
    t.err(pre + "dat:gram-residual", res)
    t.err(pre + "dat:|1-scale*Ndat|", abs(1 - c * Nd))
    if not res <= TOL_GRAM:
        t.violation(pre + "dat:gram",
                    f"dat l={l} r={r} br={br} Ndat={Nd} ({variant}): H H^T is not a multiple of Yf Yp^T (Yp Yp^T)^-1 Yp Yf^T "
                    f"(relative residual {res:.3g} with the best scale {c:.4g})", case)
    elif not (c > 0 and 0.5 <= c * Nd <= 2.0):
        t.violation(pre + "dat:normalisation", f"dat l={l} r={r} br={br} Ndat={Nd}: Gram scale {c!r} (x Ndat = {c * Nd:.4g}) is not that of 1/sqrt(N)-scaled data matrices", case)
    else:
        t.outcomes[pre + "dat:gram-equal"] += 1
    if not pre:
        try:
            later_call_keeps_earlier_matrix(t, case, Yraw, Yrraw, br, "dat", "dat")
        except Exception as e:
            t.violation(f"raises:{type(e).__name__}:build_hank:dat:second-call", f"a second build_hank call raised {type(e).__name__}: {e}", case)
        if idx % (13 if pre else 17) == 0:
            t.sample({"part": pre + "dat", "l": l, "r": r, "br": br, "Ndat": Nd, "variant": variant, "gram_residual": res, "scale_x_Ndat": c * Nd})
    return t


# ------------------------------------------------------------------------------------------------
# part 5: the projection identity on ill-conditioned (full-rank) past reference data, exact reference

COND_FAMILIES = ("near-redundant-references", "reference-nearly-delayed-copy", "large-common-component")
COND_VARIANTS = ("refs-are-first-channels", "refs-are-last-channels-reversed")
COND_FORMS = ("float64", "int64")
COND_ROUTES = ("build_hank", "SSIdat.run")
COND_YP_MAX = 5e7          # ground-truth guard: cond(Yp) of the designed record (see ASSUMPTIONS)
COND_AMPL = 1000


def cond_records(seed, fam, k, l, r, br, Nd, variant):
    """Integer-valued record (l x Nd, int64) whose r reference channels make the stacked past reference matrix Yp
    ill-conditioned in a controlled way, and the row indices of the reference channels (in reference order).

    S[0..l+r] are independent coloured payload signals (y[n] = 0.7 y[n-1] + x[n]) rounded to integers of rms COND_AMPL.
    With sc = 2**k:
      near-redundant-references     ref 0 = sc*S0,            ref b = sc*S0 + S_b            (b >= 1)
      reference-nearly-delayed-copy ref 0 = sc*S0,            ref b = sc*(S0 delayed by b samples) + S_b
      large-common-component        ref b = sc*S_r + S_b      (every b)
    so the large component spans (br+1) (delayed copy: br+r) directions of Yp with singular values ~ sc*COND_AMPL*sqrt(N)
    and the remaining directions have singular values ~ COND_AMPL*sqrt(N): cond(Yp) = O(1) * 2**k, by construction (and
    measured from the record by an SVD of Yp in cond_projection_gram). The other channels are sc*(S_small + S_own): they
    see the small component, so the projection of the future onto the weak directions matters.
    The record is zero in the first and last 2*br+4 samples; dividing it by sc gives the same record on a binary grid
    (exact in float64), with the large component of rms COND_AMPL and the small one of rms COND_AMPL * 2**-k."""
    from scipy.signal import lfilter

    m = 2 * br + 4
    n = Nd - 2 * m
    x = payload.normal(seed, f"c12/cond/{fam}/{l}/{r}/{br}/{Nd}", (l + r + 1, n))
    S = np.round(COND_AMPL * lfilter([1.0], [1.0, -0.7], x, axis=1) * (1 - 0.49) ** 0.5).astype(np.int64)
    sc = 2 ** k
    if fam == "near-redundant-references":
        refs = [S[0] * sc] + [S[0] * sc + S[b] for b in range(1, r)]
    elif fam == "reference-nearly-delayed-copy":
        s0 = S[0].copy()
        s0[n - (r - 1):] = 0                    # so that every delayed copy lies inside the non-zero part of the record
        refs = [s0 * sc] + [np.concatenate([np.zeros(b, dtype=np.int64), s0[:n - b]]) * sc + S[b] for b in range(1, r)]
    elif fam == "large-common-component":
        refs = [S[r] * sc + S[b] for b in range(r)]
    else:
        raise ValueError(fam)
    others = [(S[1 + a % max(1, r - 1)] + S[r + 1 + a]) * sc for a in range(l - r)]
    Y = np.zeros((l, Nd), dtype=np.int64)
    if variant == "refs-are-first-channels":
        Y[:, m:Nd - m] = np.array(refs + others)
        ref_ind = list(range(r))
    else:
        Y[:, m:Nd - m] = np.array(others + refs[::-1])
        ref_ind = list(range(l - 1, l - 1 - r, -1))
    return Y, ref_ind


def cond_projection_gram(Yi, Yri, br):
    """Yf Yp^T (Yp Yp^T)^-1 Yp Yf^T of integer-valued records in exact rational arithmetic (python ints, one Fraction
    per entry), rounded once to float64; and cond(Yp) from the singular values of Yp (the ground-truth
    conditioning of the case). Yf / Yp as in dat_config: every u for which all samples exist."""
    from fractions import Fraction

    Nd = Yi.shape[1]
    nb = br + 1
    us = np.arange(br, Nd - br - 1)
    Yf = np.vstack([Yi[:, us + 1 + i] for i in range(nb)])
    Yp = np.vstack([Yri[:, us - j] for j in range(nb)])
    sv = np.linalg.svd(Yp.astype(float), compute_uv=False)
    cond = float(sv[0] / sv[-1]) if sv[-1] > 0 else float("inf")
    if not cond <= 1e12:
        return None, cond
    Yfo, Ypo = Yf.astype(object), Yp.astype(object)
    Gpp = Ypo.dot(Ypo.T)
    Gfp = Yfo.dot(Ypo.T)
    m, nf = Gpp.shape[0], Gfp.shape[0]
    # fraction-free Gauss-Jordan elimination on python ints (every division is exact): Yp Yp^T is positive definite for
    # full-rank Yp, so every pivot (a leading principal minor) is positive; the left block ends as det * identity and the
    # right block as adj(Yp Yp^T) Yp Yf^T
    M = [[int(Gpp[i, j]) for j in range(m)] + [int(Gfp[a, i]) for a in range(nf)] for i in range(m)]
    prev = 1
    for c in range(m):
        pc = M[c]
        pv = pc[c]
        if pv <= 0:
            return None, float("inf")
        for q in range(m):
            if q != c:
                row = M[q]
                f = row[c]
                M[q] = [(pv * v - f * w) // prev for v, w in zip(row, pc)]
        prev = pv
    det = prev
    if not all(M[i][j] == (det if i == j else 0) for i in range(m) for j in range(m)):
        raise AssertionError("exact elimination did not end with det * identity")
    G = np.empty((nf, nf))
    for a in range(nf):
        ga = [int(Gfp[a, q]) for q in range(m)]
        for b in range(a, nf):
            G[a, b] = G[b, a] = float(Fraction(sum(ga[q] * M[q][m + b] for q in range(m)), det))
    return G, cond


def cond_config(item):
    """One designed ill-conditioned record: both record forms (values on a binary grid held as float64; the same counts
    held as int64) x both routes (build_hank; SSIResult.H after SSIdat.run), each judged by the Gram identity with the
    tolerance of dat_config against the exact projection."""
    seed, cfg = item
    idx, fam, k, l, r, br, Nd, variant = cfg
    t = Tally()
    t.states = 1
    case = {"part": "cond", "cfg": list(cfg), "seed": seed}
    nb = br + 1
    Yint, ref_ind = cond_records(seed, fam, k, l, r, br, Nd, variant)
    Gint, cond = cond_projection_gram(Yint, Yint[ref_ind], br)
    t.err("cond:cond(Yp)", cond)
    if Gint is None or not cond <= COND_YP_MAX:
        t.skipped_by_guard += len(COND_FORMS) * len(COND_ROUTES)
        t.outcomes["cond:guard:cond(Yp)-above-5e7"] += 1
        return t
    t.outcomes[f"cond:records:cond(Yp)-decade-1e{int(np.floor(np.log10(cond)))}"] += 1
    t.outcomes["cond:records:cond(Yp)-at-least-2**level" if cond >= 2.0 ** k else "cond:records:cond(Yp)-below-2**level"] += 1
    # (shape only) more samples than stacked rows, the usual situation of a measurement
    t.outcomes["cond:records:more-samples-than-stacked-rows" if Nd - 2 * br - 2 > (l + r) * nb else "cond:records:fewer-samples-than-stacked-rows"] += 1
    for form in COND_FORMS:
        if form == "float64":
            Y = Yint / float(2 ** k)
            G = Gint / float(4 ** k)
            if not np.array_equal(Y * float(2 ** k), Yint):
                raise AssertionError("designed record is not exact on the binary grid")
        else:
            Y, G = Yint.copy(), Gint
        for route in COND_ROUTES:
            try:
                if route == "build_hank":
                    H = _hank(Y, Y[ref_ind], br, "dat")
                else:
                    from pyoma2.algorithms import SSIdat
                    from pyoma2.setup import SingleSetup

                    ss = SingleSetup(np.ascontiguousarray(Y.T), fs=10.0)
                    alg = SSIdat(name="a", br=br, ordmax=2, method="dat", ref_ind=list(ref_ind))
                    ss.add_algorithms(alg)
                    ss.run_by_name("a")
                    H = np.array(alg.result.H, copy=True)
            except Exception as e:
                t.evaluations += 1
                t.violation(f"raises:{type(e).__name__}:cond:{route}",
                            f"{route} raised {type(e).__name__}: {e} on a full-rank record with cond(Yp)={cond:.3g} ({fam}, level 2**-{k}, "
                            f"l={l} ref_ind={ref_ind} br={br} Ndat={Nd}, {form})", case)
                continue
            t.evaluations += 1
            t.transitions += 1
            t.validated += 1
            t.nontrivial.add(("cond", idx, form, route))
            t.outcomes[f"cond:records-as-{form}"] += 1
            what = f"dat via {route}: {fam}, small component 2**-{k} of the large one, cond(Yp)={cond:.3g}, l={l} ref_ind={ref_ind} br={br} Ndat={Nd}, {form} record"
            if H.shape != (nb * l, nb * r):
                t.violation(f"cond:dat:shape:{route}", f"{what}: shape {H.shape} instead of (br+1)*l x (br+1)*r = {(nb * l, nb * r)}", case)
                continue
            HH = H @ H.T
            c = float(np.sum(HH * G) / np.sum(G * G))
            res = float(np.max(np.abs(HH - c * G)) / (abs(c) * np.max(np.abs(G)) or 1.0))
            t.err(f"cond:dat:gram-residual:level-2**-{k}", res)
            t.err("cond:dat:|1-scale*Ndat|", abs(1 - c * Nd))
            if not res <= TOL_GRAM:
                t.violation(f"cond:dat:gram:{route}",
                            f"{what}: H H^T is not a multiple of the Gram matrix of the orthogonal projection of the future on the past "
                            f"reference outputs, Yf Yp^T (Yp Yp^T)^-1 Yp Yf^T evaluated exactly (relative residual {res:.3g} with the best scale {c:.4g})", case)
            elif not (c > 0 and 0.5 <= c * Nd <= 2.0):
                t.violation(f"cond:dat:normalisation:{route}", f"{what}: Gram scale {c!r} (x Ndat = {c * Nd:.4g}) is not that of 1/sqrt(N)-scaled data matrices", case)
            else:
                t.outcomes[f"cond:gram-equal:{route}"] += 1
                t.outcomes[f"cond:gram-equal:{fam}:level-2**-{k}"] += 1
                t.outcomes["cond:gram-equal:cond(Yp)" + ("<1e2" if cond < 1e2 else ">=1e6" if cond >= 1e6 else ">=1e4" if cond >= 1e4 else ">=1e2")] += 1
                if idx % 7 == 0 and form == "float64":
                    t.sample({"part": "cond", "family": fam, "level": f"2**-{k}", "cond(Yp)": cond, "l": l, "ref_ind": ref_ind, "br": br, "Ndat": Nd,
                              "route": route, "gram_residual": res, "scale_x_Ndat": c * Nd})
    return t


# ------------------------------------------------------------------------------------------------
# part 4: SSIResult.H after a run

def run_config(item):
    seed, cfg = item
    idx, l, ref, br, Nd, method = cfg
    from pyoma2.algorithms import SSIcov, SSIdat
    from pyoma2.setup import SingleSetup

    t = Tally()
    t.states = 1
    case = {"part": "run", "cfg": list(cfg), "seed": seed}
    data = payload.normal(seed, f"c12/run/{l}/{Nd}", (Nd, l))
    # integer-typed records (raw counts) are legal input: the matrix must be the one of the same numbers held as floats
    dtype = ("float64", "int16", "int32")[(idx // 3 + idx) % 3]
    if dtype != "float64":
        data = np.round(data * (900.0 if dtype == "int16" else 2.0e6)).astype(dtype)
    t_dtype = dtype
    kw = dict(name="a", br=br, ordmax=2, method=method)
    if ref is not None:
        kw["ref_ind"] = list(ref)
    try:
        ss = SingleSetup(data.copy(), fs=10.0)
        alg = (SSIdat if method == "dat" else SSIcov)(**kw)
        ss.add_algorithms(alg)
        ss.run_by_name("a")
        H = np.array(alg.result.H, copy=True)
    except Exception as e:
        t.evaluations += 1
        t.violation(f"raises:{type(e).__name__}:run:{method}", f"{method} run raised {type(e).__name__}: {e} for l={l} ref_ind={ref} br={br} Ndat={Nd}", case)
        return t
    Y = data.T.astype(float)
    Yref = Y if ref is None else Y[list(ref), :]
    want = _hank(Y, Yref, br, method)
    t.outcomes[f"run:records-as-{t_dtype}"] += 1
    t.evaluations += 2
    t.transitions += 1
    t.validated += 1
    t.nontrivial.add(("run", idx))
    ok = H.shape == want.shape and bool(np.max(np.abs(H - want)) <= 1e-13 * np.max(np.abs(want)))
    if not ok:
        t.violation(f"run:H-differs:{method}",
                    f"{method} l={l} ref_ind={ref} br={br} Ndat={Nd}: result.H (shape {H.shape}) is not build_hank(data.T, data.T[ref_ind]) "
                    f"(shape {want.shape})", case)
    else:
        t.outcomes[f"run:H-equal:{method}:{'all-channels' if ref is None else 'ordered-subset' if list(ref) == sorted(ref) else 'permuted-subset'}"] += 1
        if Nd > 2 ** 16:
            t.outcomes[f"run:long-record:H-equal:{method}"] += 1
        if idx % 29 == 0:
            t.sample({"part": "run", "l": l, "ref_ind": ref, "br": br, "Ndat": Nd, "method": method, "H_shape": list(H.shape)})
    # the SAME algorithm object bound to other records of the same shape (re-added to another setup) and run again: the
    # matrix must be the one of the records bound now (no Hankel matrix kept from an earlier run of the object or the class)
    data2 = payload.normal(seed, f"c12/run2/{l}/{Nd}", (Nd, l))
    if dtype != "float64":
        data2 = np.round(data2 * (900.0 if dtype == "int16" else 2.0e6)).astype(dtype)
    try:
        ss2 = SingleSetup(data2.copy(), fs=10.0)
        ss2.add_algorithms(alg)
        ss2.run_by_name("a")
        H2 = np.array(alg.result.H, copy=True)
    except Exception as e:
        t.violation(f"raises:{type(e).__name__}:rerun:{method}", f"{method} second run of the same algorithm object on other records raised {type(e).__name__}: {e}", case)
        return t
    Y2 = data2.T.astype(float)
    want2 = _hank(Y2, Y2 if ref is None else Y2[list(ref), :], br, method)
    t.evaluations += 2
    t.transitions += 1
    t.validated += 1
    if not (H2.shape == want2.shape and bool(np.max(np.abs(H2 - want2)) <= 1e-13 * np.max(np.abs(want2)))):
        t.violation(f"rerun:H-differs:{method}",
                    f"{method} l={l} ref_ind={ref} br={br} Ndat={Nd}: after re-adding the same algorithm object to a setup with other records of the "
                    f"same shape and running it again, result.H is not build_hank of the records bound now"
                    + (" (it still equals the matrix of the first run)" if H2.shape == H.shape and np.array_equal(H2, H) else ""), case)
    else:
        t.outcomes[f"rerun:H-equal:{method}"] += 1
    return t


# ------------------------------------------------------------------------------------------------
# part 6: SSIResult.H after runs whose run parameters are given as ONE run-parameter object that reaches two algorithm objects

SHARE_FORMS = ("run_params=", "set_run_params", "attribute-assigned-after-construction",
               "handed-on:run_params-of-an-algorithm-that-has-run", "handed-on:model_copy-of-run_params-of-an-algorithm-that-has-run")
SHARE_PAIRS = (("SSIcov", "SSIdat"), ("SSIdat", "SSIcov"), ("SSIcov", "SSIcov"), ("SSIdat", "SSIdat"))   # (runs first, runs second)
SHARE_ROUTES = ("run_all", "run_by_name")
SHARE_FIELDS = ("br", "method", "ref_ind")          # the run parameters the block matrix depends on
CLASS_METHOD = {"SSIcov": "cov_mm", "SSIdat": "dat"}


def share_expected_method(cls, requested):
    """The method the matrix of an algorithm of class `cls` must follow when the run-parameter object requests `requested`:
    nothing requested -> the method the class stands for; SSIcov -> the requested method; SSIdat -> 'dat' (a covariance
    method requested from the data-driven class: the statement does not say, not judged -> None)."""
    if requested is None:
        return CLASS_METHOD[cls]
    if cls == "SSIcov" or requested == "dat":
        return requested
    return None


def share_config(item):
    """One run-parameter object (`SSIRunParams`) reaches two algorithm objects; each `SSIResult.H` is compared with
    `build_hank` of the records bound to that algorithm, with the method its class stands for / the method requested in
    the object, and the fields of the object the matrix depends on are compared with a snapshot taken before the runs.

    forms: the object is given to both algorithms at construction (`run_params=`), with `set_run_params()`, or assigned to
    the `run_params` attribute after construction (both algorithms in ONE setup; run with `run_all` in the order of
    addition or with `run_by_name` one after the other); or the first algorithm is built with keyword arguments and run on
    its own setup and its `run_params` object (or a `model_copy()` of it) is handed on to the second algorithm, which runs
    on another setup with other records of the same shape."""
    seed, cfg = item
    idx, l, ref, br, Nd, requested, form, pair, route = cfg
    import pyoma2.algorithms as algs
    from pyoma2.algorithms.data.run_params import SSIRunParams
    from pyoma2.setup import SingleSetup

    t = Tally()
    t.states = 1
    case = {"part": "share", "cfg": list(cfg), "seed": seed}
    dtype = ("float64", "int16", "int32")[idx % 3]
    datas = []
    for tag in ("1", "2"):
        d = payload.normal(seed, f"c12/share{tag}/{l}/{Nd}", (Nd, l))
        if dtype != "float64":
            d = np.round(d * (900.0 if dtype == "int16" else 2.0e6)).astype(dtype)
        datas.append(d)
    kw = dict(br=br, ordmax=2)
    if requested is not None:
        kw["method"] = requested
    if ref is not None:
        kw["ref_ind"] = list(ref)
    handed = form.startswith("handed-on")
    names = ("first", "second")
    what = (f"one SSIRunParams object (method={requested!r}, ref_ind={ref}, br={br}) for {pair[0]} then {pair[1]} "
            f"({form}, {route}), l={l} Ndat={Nd}")
    try:
        if not handed:
            rp = SSIRunParams(**kw)
            if form == "run_params=":
                objs = [getattr(algs, c)(name=n, run_params=rp) for c, n in zip(pair, names)]
            elif form == "set_run_params":
                objs = [getattr(algs, c)(name=n).set_run_params(rp) for c, n in zip(pair, names)]
            else:
                objs = [getattr(algs, c)(name=n) for c, n in zip(pair, names)]
                for o in objs:
                    o.run_params = rp
            snap = {f: getattr(rp, f) if f != "ref_ind" else (None if rp.ref_ind is None else list(rp.ref_ind)) for f in SHARE_FIELDS}
            ss = SingleSetup(datas[0].copy(), fs=10.0)
            ss.add_algorithms(*objs)
            if route == "run_all":
                ss.run_all()
            else:
                for n in names:
                    ss.run_by_name(n)
            bound = [datas[0], datas[0]]
            holders = [rp]
        else:
            first = getattr(algs, pair[0])(name="first", **kw)
            rp = first.run_params
            snap = {f: getattr(rp, f) if f != "ref_ind" else (None if rp.ref_ind is None else list(rp.ref_ind)) for f in SHARE_FIELDS}
            s1 = SingleSetup(datas[0].copy(), fs=10.0)
            s1.add_algorithms(first)
            s1.run_all() if route == "run_all" else s1.run_by_name("first")
            rp2 = rp.model_copy() if "model_copy" in form else rp
            # the second algorithm receives the object by the argument / by the setter, rotating with the point
            second = (getattr(algs, pair[1])(name="second", run_params=rp2) if idx % 2 == 0
                      else getattr(algs, pair[1])(name="second").set_run_params(rp2))
            s2 = SingleSetup(datas[1].copy(), fs=10.0)
            s2.add_algorithms(second)
            s2.run_all() if route == "run_all" else s2.run_by_name("second")
            objs = [first, second]
            bound = [datas[0], datas[1]]
            holders = [rp] if rp2 is rp else [rp, rp2]
        Hs = [np.array(o.result.H, copy=True) for o in objs]     # copies taken at the moment of reading, after BOTH runs
    except Exception as e:
        t.evaluations += 1
        t.violation(f"raises:{type(e).__name__}:share:{form}", f"raised {type(e).__name__}: {e} with {what}", case)
        return t
    t.outcomes[f"share:records-as-{dtype}"] += 1
    for pos, (cls, H, d) in enumerate(zip(pair, Hs, bound)):
        method = share_expected_method(cls, requested)
        if method is None:
            t.not_judged += 1
            t.outcomes["share:covariance-method-requested-from-SSIdat:not-judged"] += 1
            continue
        Y = d.T.astype(float)
        want = _hank(Y, Y if ref is None else Y[list(ref), :], br, method)
        t.evaluations += 2
        t.transitions += 1
        t.validated += 1
        t.nontrivial.add(("share", idx, pos))
        if not (H.shape == want.shape and bool(np.max(np.abs(H - want)) <= 1e-13 * np.max(np.abs(want)))):
            other = None
            for m in ("cov_mm", "cov_R", "dat"):
                if m != method:
                    w2 = _hank(Y, Y if ref is None else Y[list(ref), :], br, m)
                    if H.shape == w2.shape and bool(np.max(np.abs(H - w2)) <= 1e-13 * np.max(np.abs(w2))):
                        other = m
            t.violation(f"share:H-differs:{cls}:{method}:runs-{names[pos]}",
                        f"{what}: result.H of the {cls} that runs {names[pos]} (shape {H.shape}) is not build_hank(data.T, data.T[ref_ind], "
                        f"method={method!r}) of the records bound to it (shape {want.shape})"
                        + (f"; it equals the matrix of method {other!r}" if other else ""), case)
        else:
            t.outcomes[f"share:H-equal:{cls}:{method}:runs-{names[pos]}"] += 1
            t.outcomes[f"share:H-equal:{form}"] += 1
            t.outcomes[f"share:H-equal:{route}"] += 1
            t.outcomes[f"share:H-equal:{pair[0]}-then-{pair[1]}:requested-{requested}"] += 1
    # the run parameters the matrix depends on are the user's: as given, after the runs
    t.evaluations += 1
    changed = [(f, snap[f], getattr(h, f)) for h in holders for f in SHARE_FIELDS
               if (getattr(h, f) if f != "ref_ind" or getattr(h, f) is None else list(getattr(h, f))) != snap[f]]
    if changed:
        f, was, now = changed[0]
        t.violation(f"share:run-params-changed-by-run:{f}",
                    f"{what}: after the runs the run-parameter object holds {f}={now!r}, it was given with {f}={was!r}", case)
    else:
        t.outcomes["share:run-params-as-given-after-runs"] += 1
        if idx % 97 == 0:
            t.sample({"part": "share", "l": l, "ref_ind": ref, "br": br, "Ndat": Nd, "requested_method": requested, "form": form,
                      "classes_in_run_order": list(pair), "route": route, "record_type": dtype})
    return t


# ------------------------------------------------------------------------------------------------
# lattices

def basis_lattice(thorough):
    out = []
    for l in range(1, 5):
        for r in range(1, l + 1):
            for br in range(1, 6):
                lens = range(2 * br + 3, 41) if thorough else sorted({2 * br + 3, 17, 24})
                for Nd in lens:
                    for method in ("cov_mm", "cov_R"):
                        out.append((len(out), l, r, br, Nd, method))
    return out


def bilin_lattice(thorough):
    out = []
    shapes = [(1, 1), (2, 1), (2, 2)] + ([(3, 2)] if thorough else [])
    for (l, r) in shapes:
        for br in ((1, 2, 3) if thorough else (1, 2)):
            for Nd in ((2 * br + 3, 2 * br + 5) if thorough else (2 * br + 3,)):
                for method in ("cov_mm", "cov_R"):
                    out.append((len(out), l, r, br, Nd, method))
    return out


VARIANTS = ("independent-reference-record", "refs-are-first-channels", "refs-are-last-channels-reversed")


def padded_lattice(thorough, methods):
    out = []
    ls = (1, 2, 3, 4, 6, 8) if thorough else (1, 2, 4, 8)
    brs = (1, 2, 3, 5, 8, 12, 20) if thorough else (1, 3, 8, 20)
    for l in ls:
        for r in sorted({1, 2, 3, l}):
            if r > l:
                continue
            for br in brs:
                base = (br + 1) * (l + r)
                for extra in ((7, 60, 400) if thorough else (7, 150)):
                    Nd = 2 * (2 * br + 4) + 2 * base + extra
                    for method in methods:
                        for variant in VARIANTS:
                            out.append((len(out), l, r, br, Nd, method, variant))
    return out


LONG_SHAPES = ((1, 1, 1), (2, 1, 2), (2, 2, 3), (3, 2, 1), (3, 3, 2), (2, 2, 1))      # (channels, references, br)
LONG_METHODS = ("cov_mm", "cov_R", "dat")


def long_lengths(thorough):
    """List of ((k, d), None): the number of averaged products Ndat-2br-1 is 2**k+d, or (None, Ndat): that record length.
    The thorough list is the quick list followed by more lengths (the quick points keep their index, hence their rotation)."""
    # (the records vanish near both ends, so a power of two met within 2*br+4 samples of the end of the record is seen by the
    # next lengths only: 5000, 20000, 70001, 3*2**16+50 lie well inside the next octave of 2**12, 2**14, 2**16, 2**17)
    out = [((k, d), None) for k in (12, 14, 16, 17) for d in (-1, 0, 1, 2)] + [(None, 5000), (None, 20000), (None, 70001), (None, 3 * 2 ** 16 + 50)]
    if thorough:
        out += [((k, d), None) for k in (13, 15, 18) for d in (-1, 0, 1, 2)] + [(None, 10000), (None, 40000), (None, 100000), (None, 2 ** 18 + 2 ** 16 - 1)]
    return out


def long_lattice(thorough, methods):
    """Long records: every length of long_lengths x every method x every reference variant; the shape and the record
    type rotate with the length, the method and the variant."""
    out = []
    for n, (kd, Ndfix) in enumerate(long_lengths(thorough)):
        for method in methods:
            M = LONG_METHODS.index(method)
            for v, variant in enumerate(VARIANTS):
                l, r, br = LONG_SHAPES[(n + 2 * M + v) % len(LONG_SHAPES)]
                Nd = Ndfix if Ndfix is not None else 2 ** kd[0] + kd[1] + 2 * br + 1
                dtype = LONG_DTYPES[(n // 2 + M + 2 * v) % 3]
                out.append((len(out), l, r, br, Nd, method, variant, dtype))
    return out


def run_lattice(thorough):
    out = []
    for l in range(1, 5):
        refs = [None]
        for k in range(1, l + 1):
            refs += [list(p) for p in itertools.permutations(range(l), k)]
        for ref in refs:
            for br in ((2, 3, 5) if thorough else (3,)):
                for Nd in ((60, 97) if thorough else (60,)):
                    for method in ("cov_mm", "cov_R", "dat"):
                        out.append((len(out), l, ref, br, Nd, method))
    # long records through a real run (few channels; the record type rotates with the index as above)
    for (l, ref, br, Nd) in [(2, [1, 0], 1, 2 ** 16 + 5), (3, [2], 2, 2 ** 16 + 2 ** 12), (2, None, 3, 2 ** 17 + 9)] + (
            [(3, [0, 2], 2, 3 * 2 ** 16 + 50), (2, [0], 1, 2 ** 18 + 4)] if thorough else []):
        for method in ("cov_mm", "cov_R", "dat"):
            out.append((len(out), l, ref, br, Nd, method))
    return out


SHARE_REQUESTED = (None, "cov_mm", "cov_R", "dat")
SHARE_SMALL_REFS = ((1, None), (2, [1, 0]), (3, None), (3, [2, 0]), (3, [1]), (4, [3, 1, 0]))          # (channels, ref_ind)


def share_lattice(thorough):
    """(a) nothing requested in the shared object (method=None, the default): every ordered reference list of 1..4 channels x
    every sharing form x both run orders of the two classes, the run route rotating with the point (thorough: both routes,
    br 2, 3, 5); (b) on six (channels, ref_ind) points: every requested method (None, cov_mm, cov_R, dat) x every form x
    every ordered pair of classes (also twice the same class) x both routes. Points of (b) that are in (a) are not repeated."""
    out, seen = [], set()

    def add(l, ref, br, Nd, requested, form, pair, route):
        key = (l, None if ref is None else tuple(ref), br, Nd, requested, form, pair, route)
        if key not in seen:
            seen.add(key)
            out.append((len(out), l, ref, br, Nd, requested, form, pair, route))

    n = 0
    for l in range(1, 5):
        refs = [None]
        for k in range(1, l + 1):
            refs += [list(p) for p in itertools.permutations(range(l), k)]
        for ref in refs:
            for br in ((2, 3, 5) if thorough else (3,)):
                for f, form in enumerate(SHARE_FORMS):
                    for q, pair in enumerate(SHARE_PAIRS[:2]):
                        for route in (SHARE_ROUTES if thorough else (SHARE_ROUTES[(n + f + q) % 2],)):
                            add(l, ref, br, 60, None, form, pair, route)
            n += 1
    for (l, ref) in SHARE_SMALL_REFS:
        for br in ((2, 3) if thorough else (3,)):
            for requested in SHARE_REQUESTED:
                for form in SHARE_FORMS:
                    for pair in SHARE_PAIRS:
                        for route in SHARE_ROUTES:
                            add(l, ref, br, 60, requested, form, pair, route)
    return out


COND_SHAPES = ((2, 2, 1), (3, 2, 2), (4, 3, 3), (3, 2, 5))                 # (channels, references, br)
COND_SHAPES_THOROUGH = COND_SHAPES + ((3, 3, 1), (4, 2, 3), (5, 3, 2), (2, 2, 8))


def cond_levels(thorough):
    """k: the small component of the reference channels is 2**-k of the large one; cond(Yp) = O(1) * 2**k (about 3..15 x 2**k)."""
    return (0, 4, 7, 10, 12, 14, 16, 17, 18, 19, 20) if thorough else (0, 7, 14, 17, 20)


def cond_lattice(thorough):
    """family x level x shape x record length (all with more samples than stacked rows); the placement of the reference
    channels rotates with the point. The thorough lattice contains every quick point (same records)."""
    out = []
    for fam in COND_FAMILIES:
        for k in cond_levels(thorough):
            for s, (l, r, br) in enumerate(COND_SHAPES_THOROUGH if thorough else COND_SHAPES):
                for e, extra in enumerate((40, 300, 120, 1000) if thorough else (40, 300)):
                    Nd = 2 * (2 * br + 4) + 2 * (br + 1) * (l + r) + extra
                    variant = COND_VARIANTS[(COND_FAMILIES.index(fam) + k + s + e) % 2]
                    out.append((len(out), fam, k, l, r, br, Nd, variant))
    return out


def explore(ctx):
    condl = cond_lattice(ctx.thorough)
    basis = basis_lattice(ctx.thorough)
    bilin = bilin_lattice(ctx.thorough)
    loop = padded_lattice(ctx.thorough, ("cov_mm", "cov_R"))
    dat = padded_lattice(ctx.thorough, ("dat",))
    runs = run_lattice(ctx.thorough)
    shares = share_lattice(ctx.thorough)
    longc = long_lattice(ctx.thorough, ("cov_mm", "cov_R"))
    longd = long_lattice(ctx.thorough, ("dat",))
    ctx.bounds = {
        "basis": {"channels": [1, 2, 3, 4], "references": "1..channels", "br": [1, 2, 3, 4, 5],
                  "record_lengths": "2br+3..40" if ctx.thorough else "{2br+3, 17, 24}", "methods": ["cov_mm", "cov_R"],
                  "shapes": len(basis), "impulse_pairs": int(sum(c[1] * c[2] * c[4] ** 2 for c in basis))},
        "bilinearity": {"shapes": [list(c[1:]) for c in bilin], "scales": list(SCALES),
                        "what": "all unordered pair sums of basis elements in either argument x all basis elements of the other; all scalings"},
        "loop_construction": {"points": len(loop), "channels": sorted({c[1] for c in loop}), "br": sorted({c[3] for c in loop}),
                              "record_lengths": [min(c[4] for c in loop), max(c[4] for c in loop)], "variants": list(VARIANTS)},
        "dat_projection": {"points": len(dat), "channels": sorted({c[1] for c in dat}), "br": sorted({c[3] for c in dat}),
                           "record_lengths": [min(c[4] for c in dat), max(c[4] for c in dat)], "variants": list(VARIANTS)},
        "run": {"points": len(runs), "channels": [1, 2, 3, 4], "ref_ind": "None and every ordered arrangement of every non-empty subset",
                "br": sorted({c[3] for c in runs}), "record_lengths": sorted({c[4] for c in runs}), "methods": ["cov_mm", "cov_R", "dat"]},
        "run_with_shared_run_parameter_object": {
            "points": len(shares), "what": "ONE SSIRunParams object reaches two algorithm objects; SSIResult.H of each against build_hank of the "
            "records bound to it with the method its class stands for (SSIcov: cov_mm, SSIdat: dat) or the method requested in the object; "
            "the fields br, method, ref_ind of the object against a snapshot taken before the runs",
            "forms": list(SHARE_FORMS), "classes_in_run_order": [list(p) for p in SHARE_PAIRS], "routes": list(SHARE_ROUTES),
            "requested_method": [str(m) for m in SHARE_REQUESTED], "channels": [1, 2, 3, 4],
            "ref_ind": "method None, two classes: None and every ordered arrangement of every non-empty subset; all requested methods / same class "
                       "twice: " + str([list(x) for x in SHARE_SMALL_REFS]),
            "br": sorted({c[3] for c in shares}), "record_lengths": sorted({c[4] for c in shares}),
            "rotation": "record type (float64/int16/int32) with the point; quick: run route with the point on the full ref_ind lattice; "
                        "handed-on forms: argument / setter with the point",
            "not_judged": "the matrix of an SSIdat whose run-parameter object requests a covariance method (the statement does not say)"},
        "long_records": {"points": len(longc) + len(longd), "methods": list(LONG_METHODS),
                         "averaged_products(Ndat-2br-1)": [f"2**{kd[0]}{kd[1]:+d}" for kd, _ in long_lengths(ctx.thorough) if kd is not None],
                         "other_record_lengths": [b for a, b in long_lengths(ctx.thorough) if a is None],
                         "shapes(channels, references, br)": [list(x) for x in LONG_SHAPES], "variants": list(VARIANTS),
                         "record_types": list(LONG_DTYPES), "record_lengths": sorted({c[4] for c in longc + longd}),
                         "judged_by": "loop construction (cov_mm, cov_R) / projection Gram identity (dat), as the shorter records",
                         "rotation": "one point per (length, method, variant); shape and record type rotate with them"},
        "dat_projection_ill_conditioned": {
            "points": len(condl), "families": list(COND_FAMILIES),
            "levels(small component = 2**-k of the large one; cond(Yp) = O(1)*2**k)": [f"2**-{k}" for k in cond_levels(ctx.thorough)],
            "shapes(channels, references, br)": [list(x) for x in (COND_SHAPES_THOROUGH if ctx.thorough else COND_SHAPES)],
            "record_lengths": sorted({c[6] for c in condl}), "reference_placement": list(COND_VARIANTS) + ["rotating with the point"],
            "record_forms": list(COND_FORMS), "routes": list(COND_ROUTES),
            "evaluations_per_point": len(COND_FORMS) * len(COND_ROUTES),
            "judged_by": "Gram identity against the projection evaluated in exact rational arithmetic, tolerance of the dat part (1e-9)",
            "guard": f"cond(Yp) <= {COND_YP_MAX:g} (singular values of the designed Yp)"},
    }
    # biggest shapes first (one item = one shape = up to 25 600 library calls)
    ctx.pmap(basis_config, sorted(basis, key=lambda c: -(c[1] * c[2] * c[4] ** 2)), chunksize=1)
    ctx.pmap(bilin_config, sorted(bilin, key=lambda c: -(c[1] * c[2]) ** 2 * c[4] ** 3), chunksize=1)
    ctx.pmap(padded_cov_config, [(ctx.seed, c) for c in loop], chunksize=4)
    ctx.pmap(dat_config, [(ctx.seed, c) for c in dat], chunksize=4)
    # ill-conditioned past reference data, costliest exact reference first
    ctx.pmap(cond_config, [(ctx.seed, c) for c in sorted(condl, key=lambda c: -(c[3] + c[4]) * c[4] * (c[5] + 1) ** 2 * c[6])], chunksize=1)
    ctx.pmap(run_config, [(ctx.seed, c) for c in runs], chunksize=4)
    ctx.pmap(share_config, [(ctx.seed, c) for c in shares], chunksize=8)
    # long records, longest first
    ctx.pmap(padded_cov_config, [(ctx.seed, c) for c in sorted(longc, key=lambda c: -c[4] * c[1])], chunksize=1)
    ctx.pmap(dat_config, [(ctx.seed, c) for c in sorted(longd, key=lambda c: -c[4] * c[1])], chunksize=1)
    ctx.require("basis:layout-as-stated:cov_mm", "basis:layout-as-stated:cov_R", "basis:zero-matrix", "basis:non-zero-matrix",
                "bilin:additive-in-data:ok", "bilin:additive-in-reference:ok", "bilin:homogeneous-in-data:ok",
                "bilin:homogeneous-in-reference:ok", "bilin:homogeneous-jointly:ok", "dat:gram-equal",
                "run:H-equal:cov_mm:permuted-subset", "run:H-equal:cov_R:permuted-subset", "run:H-equal:dat:permuted-subset",
                "run:H-equal:dat:all-channels", "rerun:H-equal:cov_mm", "rerun:H-equal:cov_R", "rerun:H-equal:dat", "run:records-as-int16", "run:records-as-int32")
    # the long-record region was really explored: every method judged equal at every side of 2**16 and 2**17, each record type
    ctx.require("dat:earlier-matrix-kept-after-later-call:dat")
    ctx.require("long:dat:gram-equal", "run:long-record:H-equal:cov_mm", "run:long-record:H-equal:cov_R", "run:long-record:H-equal:dat",
                *[f"long:records:{m}:products-{side}-2**{k}" for m in LONG_METHODS for k in (12, 16, 17) for side in ("below", "at", "above")],
                *[f"long:records:{m}:products-other" for m in LONG_METHODS],
                *[f"long:records-as-{d}:{m}" for m in LONG_METHODS for d in LONG_DTYPES])
    # the ill-conditioned region was really explored: every family judged equal at every level, by both routes and record
    # forms, with ground-truth cond(Yp) in each band up to >= 1e6, and on records with more samples than stacked rows
    ctx.require(*[f"cond:gram-equal:{f}:level-2**-{k}" for f in COND_FAMILIES for k in cond_levels(ctx.thorough)],
                *[f"cond:gram-equal:{rt}" for rt in COND_ROUTES], *[f"cond:records-as-{f}" for f in COND_FORMS],
                "cond:gram-equal:cond(Yp)<1e2", "cond:gram-equal:cond(Yp)>=1e2", "cond:gram-equal:cond(Yp)>=1e4", "cond:gram-equal:cond(Yp)>=1e6",
                "cond:records:cond(Yp)-at-least-2**level", "cond:records:more-samples-than-stacked-rows")
    # the shared-run-parameter region was really explored: each class judged equal with its own method as first and as second
    # runner, every form, both routes, both orders of the two classes with nothing requested, every requested method, each record type
    ctx.require(*[f"share:H-equal:{c}:{CLASS_METHOD[c]}:runs-{w}" for c in CLASS_METHOD for w in ("first", "second")],
                *[f"share:H-equal:{f}" for f in SHARE_FORMS], *[f"share:H-equal:{r}" for r in SHARE_ROUTES],
                *[f"share:H-equal:{a}-then-{b}:requested-None" for a, b in SHARE_PAIRS],
                *[f"share:H-equal:SSIcov-then-SSIdat:requested-{m}" for m in SHARE_REQUESTED[1:]],
                *[f"share:H-equal:SSIdat-then-SSIcov:requested-{m}" for m in SHARE_REQUESTED[1:]],
                "share:H-equal:SSIcov:cov_R:runs-second", "share:H-equal:SSIcov:dat:runs-second",
                "share:run-params-as-given-after-runs", *[f"share:records-as-{d}" for d in LONG_DTYPES])
    for m in ("cov_mm", "cov_R"):
        if not any(k.startswith(f"long:loop:equal:{m}") for k in ctx.tally.outcomes):
            ctx.require(f"long:loop:equal:{m}")
    if not any(k.startswith("loop:equal:cov_mm") for k in ctx.tally.outcomes):
        ctx.require("loop:equal:cov_mm")
    if not any(k.startswith("loop:equal:cov_R") for k in ctx.tally.outcomes):
        ctx.require("loop:equal:cov_R")


def replay(case):
    part = case["part"]
    cfg = case["cfg"]
    if part == "basis":
        return basis_config(tuple(cfg))
    if part == "bilin":
        return bilin_config(tuple(cfg))
    if part == "loop":
        return padded_cov_config((case["seed"], tuple(cfg)))
    if part == "dat":
        return dat_config((case["seed"], tuple(cfg)))
    if part == "cond":
        return cond_config((case["seed"], tuple(cfg)))
    if part == "run":
        c = list(cfg)
        return run_config((case["seed"], tuple(c)))
    if part == "share":
        c = list(cfg)
        c[7] = tuple(c[7])
        return share_config((case["seed"], tuple(c)))
    raise ValueError(part)
