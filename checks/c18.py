"""C18 - mode-shape indicators are bounded, scale-invariant and exact on collinear shapes.

gen.MAC / MPC / MPD / MCF / MSF on every vector of small integer alphabets (real {-2..2}^n, Gaussian integers), on
payload vectors with 8/16/64 components, on nearly collinear shapes and on NEARLY UNIFORM shapes (all components within a relative
spread 1e-2..1e-8 of a common mean: almost rigid-body translations), each under every complex scale of a catalogue
(5 moduli x 6 phases), raw and re-normalised to a unit component; MAC matrices on every pair of 2-shape sets over a
Gaussian-integer alphabet against the textbook definition. Dtype axis: the same values handed over as int64 / int32 / float32 /
float64 / complex64 / complex128 arrays (every dtype that holds the values, every ordered pair of dtypes for the two arguments of
MAC and MSF), on all integer vectors over {-2..2}^n, integer "table" vectors with 3..64 components, Gaussian-integer and payload
complex vectors, all ordered pairs of 2-shape sets over a pool of six 3-component shapes, and complex sets against integer tables.
Purity: on EVERY call made here the array arguments are compared before/after (bytes, dtype, shape, strides, the viewed array).
Call sequences: every ordered pair (payload shapes: every ordered triple) of the five indicators called one after the other on the
same array objects (shape v, another shape a, w = c v - all built before the first call; 1-D arrays of every admissible dtype; sets in
C order, Fortran order and as strided views, with column views), the last call judged against the reference from the pristine values.
"""
import itertools

import numpy as np

from mc import payload
from mc.core import Tally
from pyoma2.functions import gen

ID = "C18"
TECHNIQUE = ("bounded-exhaustive enumeration of mode shapes over small integer alphabets (all real vectors over {-2..2}^n, "
             "all Gaussian-integer vectors, all pairs of 2-shape sets) and payload vectors, times the full catalogue of "
             "complex scales, with an oracle (bounds, invariance, exact collinear values, MSF = c) on every element; plus the full "
             "lattice (shape or pair of shape sets) x (dtype of the first argument) x (dtype of the second argument) over int64, int32, "
             "float32, float64, complex64, complex128 with the reference computed in complex128 from the same values; plus, on every call, a "
             "before/after comparison of the array arguments, and the full lattice (shape) x (ordered pair / triple of indicators) of call "
             "sequences on the same array objects, (set of shapes) x (memory layout) x (ordered pair of set / column-view operations)")
LEVEL_TEXT = ("every vector of the stated alphabets under every scale of the catalogue is evaluated on the real functions; "
              "input classes (collinear, constant base vector, nearly uniform = non-constant with a relative spread down to 1e-8, zero components, isotropic) are decided from the input; on the dtype axis "
              "every admissible dtype (pair) of every listed shape / pair of sets is evaluated, admissibility decided from the values; every "
              "ordered pair of indicators (triples on payload shapes) is executed as a call sequence on the same array objects of every listed "
              "shape and set, and every library call of the check is followed by a comparison of its arguments with their state before the call")
RULE = ("a case is one (vector, complex scale, raw/unit-normalised) evaluation of the five indicators, or one ordered pair "
        "of 2-shape sets for the MAC matrix; non-trivial = the vector has at least two non-zero components and the scale "
        "actually changes it (not the factor 1 on the raw vector), respectively the two sets differ; distinct by lattice index; "
        "on the dtype axis a case is one (shape or pair of sets, dtype, dtype) evaluation, non-trivial = at least one array is not "
        "float64/complex128; a call-sequence case is one (shape or set, form / dtype / memory layout, ordered tuple of indicators) "
        "executed on the same array objects, non-trivial = the shape has at least two non-zero components (sets: always)")
ASSUMPTIONS = [
    "MAC reference value is the textbook definition |x^H a|^2 / ((x^H x)(a^H a)) computed with numpy sums",
    "MSF domain: vectors with |v^T v| >= 0.2 ||v||^2 only (the library's MSF is the bilinear ratio v2^T v1 / v1^T v1 pinned by "
    "test_MSF; for isotropic vectors v^T v ~ 0 it is undefined); the guard is computed from the input",
    "MPD invariance is judged only when the two singular values of [Re phi, Im phi] differ by >= 5 % (for isotropic shapes the "
    "reference direction, hence MPD itself, is not defined); bounds and finiteness are judged always",
    "tolerances: MAC/MPC/MCF invariance and MAC = 1: 1e-9 absolute; MPC = 1, MCF = 0 on collinear shapes: 1e-7; MPD = 0 and MPD "
    "invariance: 1e-6 (arccos near 1 turns a rounding error eps into sqrt(2 eps) ~ 2e-8); MSF: 1e-12 relative; bounds with 1e-12 slack",
    "gen.MPC on shapes whose components are all equal (constant base vector, times any complex factor) is a listed known "
    "finding (class MPC:constant-base-vector, decided from the input); every other MPC failure is a violation",
    "nearly collinear shapes (v + 1e-9 w) are judged for bounds, finiteness and invariance only (the statement fixes values "
    "only for exactly collinear shapes); their base vectors v are non-constant",
    "nearly uniform shapes (family 'uniform'): v = m (1 + s u), u a payload vector with 0.2 <= |u_i| <= 1 (all moduli distinct), relative spread s in "
    "{1e-2, 1e-4, 1e-6, 1e-7, 1e-8}, mean m in {1, 0.37, -250}, 2..64 components; v is NOT constant (decided from the input: its components are "
    "pairwise different doubles), so these shapes are exactly collinear and get the full judgement (MPC = 1, MPD = 0, MCF = 0, MAC = 1, bounds, "
    "invariance under every scale of the catalogue, same tolerances as every other collinear shape) - only the limit s = 0 is the known finding; "
    "the variant with a small non-collinear part, v + 1e-3 s m (w1 + i w2) (w payload, 1e-3 of the spread), is judged like the other nearly "
    "collinear shapes (bounds, finiteness, invariance). Measured on the unchanged library before this family was added (seeds 0..2, every n, m, "
    "scale): |MPC - 1| <= 4e-14 on the collinear variant at every spread down to 1e-8; MPC invariance of the non-collinear variant within 1.5e-11 "
    "at s = 1e-7 and 1.8e-10 at s = 1e-8 (np.cov removes the mean first, the deviations carry a relative rounding error eps/s) - the latter is "
    "within a factor 5 of the 1e-9 tolerance, so the non-collinear variant stops at s = 1e-7 and the collinear one goes down to 1e-8",
    "all-zero vectors are excluded (no indicator is defined)",
    "dtype axis: an indicator is a function of the values of a shape, not of the storage type of the array; a shape is cast only to "
    "dtypes that hold its values exactly (integer dtypes: integer-valued real shapes with |entries| <= 10, |c v| <= 180 in MSF, so that every integer "
    "intermediate fits int32; real dtypes: real shapes), except that non-integer payload shapes are rounded by complex64 and the "
    "reference is then computed (in complex128) from the rounded values actually stored",
    "dtype axis, single-precision input (float32 / complex64 in either argument): single-precision tolerances - MAC/MPC/MCF 2e-6 "
    "(16 eps32), MPD 2e-3 (sqrt(2 * 16 eps32)), MSF 1e-6 relative, bounds with 1e-6 slack; every other dtype combination (int64, "
    "int32, float64, complex128) is judged with the double-precision tolerances above",
    "purity: an indicator is a function of the VALUES of its arguments - the caller's arrays (the objects handed over and, for views, the "
    "arrays they are views of) hold the same bytes, dtype, shape and strides after the call; judged on every call the check makes",
    "call sequences: the arrays v, a (another shape: v rolled by one place with 3.5+0.5i added to the first entry) and w = c v are built before "
    "the first call and the same objects are handed to every call of the sequence (MAC(v, a), MPC(v), MPD(v), MCF(v), MSF(v, w)); the last call "
    "is judged against the value given by the pristine values: MAC the textbook definition, MCF its closed form, MSF = c (1e-12 relative, c "
    "rotating through the catalogue of real factors; same domain guard as above), MPC / MPD the library's own value on a fresh copy of the "
    "pristine shape (that value is judged by the single-call part); same tolerances as the single-call judgements; MPC of constant shapes "
    "(known finding) and MPD of isotropic shapes are not judged in a sequence either; sequences containing MSF are skipped outside MSF's domain",
    "call sequences on sets: X (n x k), A (rows of X rolled by one, columns reversed, 3.5+0.5i added to the first row), W = X * (real factor per "
    "column) as C-ordered, Fortran-ordered and strided-view arrays; operations MAC(X, A), MCF(X), MSF(X, W) and MAC/MPC/MPD/MCF/MSF on the column "
    "view X[:, k-1]; complex payload sets are drawn with phases within +-0.5 rad so that they lie inside MSF's domain",
    "MAC of two 2-shape sets (every ordered pair of sets over the Gaussian-integer vector alphabet) is also called with the two sets handed over "
    "as two views of ONE array (adjacent column blocks B[:, :2] / B[:, 2:] in both argument orders, and overlapping blocks B[:, 0:2] / B[:, 1:3]): "
    "same definition, same tolerance - an indicator is a function of the values, whatever memory the two arguments share",
    "dtype axis: MPC/MPD of a non-collinear complex64 shape are compared with the library's own value on the complex128 copy of the "
    "same values (that value is judged by the vector route); MCF and MAC against closed forms; collinear shapes against 1 / 0 / 0 / 1",
]

MODS = [1e-6, 1e-3, 1.0, 7.3, 1e6]
PHASES = [0.0, 0.7, np.pi / 2, 2.1, np.pi, -2.9]
SCALES = [m * np.exp(1j * p) for m in MODS for p in PHASES]
REAL_C = [1e-6, -1e-6, 0.05, -0.05, 0.5, -0.5, 1.0, -1.0, 3.0, -3.0, 20.0, -20.0, 1e6, -1e6]
GAUSS = [0, 1, -1, 1j, 1 + 1j, 2 - 1j]
GAUSS_Q = [0, 1, 1j, 2 - 1j]
PAY_N = [8, 16, 64]
PAY_REAL_VARIANTS = ["plain", "one-zero", "half-zeros", "rounded", "constant", "two-valued"]
PAY_CPLX_VARIANTS = ["plain", "one-zero", "unit-moduli", "nearly-real"]
# nearly uniform shapes m (1 + s u): relative spread s, mean m, number of components, exactly collinear / with a small non-collinear part
UNI_SPREADS = [1e-2, 1e-4, 1e-6, 1e-7, 1e-8]
UNI_NEAR_MIN_SPREAD = 1e-7      # smallest spread of the variant with a non-collinear part (see ASSUMPTIONS: measured margin of np.cov itself)
UNI_NONCOL = 1e-3               # size of the non-collinear part relative to the spread
UNI_MEANS = [1.0, 0.37, -250.0]
UNI_N = [2, 3, 5, 16, 64]
UNI_N_THOROUGH = [2, 3, 4, 5, 8, 16, 32, 64]
UNI_KINDS = ["collinear", "non-collinear-part"]
TOL_INV = 1e-9
TOL_MPD = 1e-6
TOL_COL = 1e-7
SLACK = 1e-12
KNOWN_MPC = "MPC:constant-base-vector"
PAIR_SCALES = [(1e-6 * np.exp(0.7j), 1e-6), (1e6, 1e-6 * np.exp(2.1j)), (1e-6, 1e-3 * np.exp(-2.9j)), (1e6 * np.exp(2.1j), 1e6)]


# ---------------------------------------------------------------------------------------------
# the indicators are functions of the VALUES of their arguments: every call this check makes goes through G, which compares every
# array argument (the very object handed over, and the array it is a view of) before / after the call: bytes, dtype, shape, strides

class _Pure:
    def __init__(self):
        self.t = None
        self.case = None
        self.n = dict.fromkeys(("MAC", "MPC", "MPD", "MCF", "MSF"), 0)

    def bind(self, t, case):
        if t is not self.t:
            self.flush()
        self.t, self.case = t, case

    def flush(self):
        """calls with all arguments unchanged, counted since the last flush -> outcome counters of the bound tally"""
        for ind, n in self.n.items():
            if n and self.t is not None:
                self.t.outcomes[f"purity:{ind}:arguments-unchanged"] += n
            self.n[ind] = 0

    def _run(self, ind, f, args):
        before = [(a.tobytes(), a.dtype, a.shape, a.strides, None if a.base is None else np.asarray(a.base).tobytes()) for a in args]
        try:
            return f(*args)
        finally:
            clean = True
            k = 0
            for a in args:
                s = before[k]
                if (a.tobytes() != s[0] or a.dtype != s[1] or a.shape != s[2] or a.strides != s[3]
                        or (s[4] is not None and (a.base is None or np.asarray(a.base).tobytes() != s[4]))):
                    clean = False
                    self._report(ind, k, a, s)
                k += 1
            if clean:
                self.n[ind] += 1
            else:
                self.t.outcomes[f"BAD:{ind}:argument-modified"] += 1

    def _report(self, ind, k, a, before):
        now = (a.tobytes(), a.dtype, a.shape, a.strides)
        if now[1:4] != before[1:4]:
            what = f"dtype/shape/strides {before[1:4]} -> {now[1:4]}"
        elif now[0] != before[0]:
            old = np.frombuffer(before[0], dtype=before[1]).reshape(before[2])
            what = f"values {old.ravel().tolist()[:4]} -> {np.asarray(a).ravel().tolist()[:4]}"
        else:
            what = "the array it is a view of was written to (outside the view)"
        lay = "view" if before[4] is not None else "own-array"
        c = dict(self.case or {})
        c["purity"] = {"indicator": ind, "argument": k, "dtype": str(before[1]), "shape": list(before[2])}
        self.t.violation(f"{ind}:argument-modified:arg{k}:{before[1]}:{len(before[2])}-D:{lay}",
                         f"gen.{ind} changed its argument #{k} ({before[1]} array of shape {before[2]}, {lay}) in place: {what}; "
                         f"an indicator is a function of the values of a shape, the caller's array must be left as it was", c)

    def MAC(self, x, a):
        return self._run("MAC", gen.MAC, (x, a))

    def MSF(self, x, a):
        return self._run("MSF", gen.MSF, (x, a))

    def MPC(self, x):
        return self._run("MPC", gen.MPC, (x,))

    def MPD(self, x):
        return self._run("MPD", gen.MPD, (x,))

    def MCF(self, x):
        return self._run("MCF", gen.MCF, (x,))


G = _Pure()
INDS = ["MAC", "MPC", "MPD", "MCF", "MSF"]


# ---------------------------------------------------------------------------------------------
# vectors

def build(seed, fam, spec):
    """-> (phi0 complex vector, base real vector or None, info dict). Classes are decided here, from the input only."""
    if fam == "int-real":
        v = np.array(spec, float)
        return v.astype(complex), v, {}
    if fam == "gauss":
        z = np.array(spec, complex)
        base = None
        nz = [c for c in z if c != 0]
        re, im = z.real, z.imag
        col = all(re[i] * im[j] - re[j] * im[i] == 0 for i in range(len(z)) for j in range(i + 1, len(z)))
        if col:
            base = (z / nz[0]).real
        return z, base, {}
    if fam == "pay-real":
        n, var = spec
        v = payload.entries(seed, f"c18/pr/{n}/{var}", (n,), 0.2, 1.0)
        if var == "one-zero":
            v[n // 3] = 0.0
        elif var == "half-zeros":
            v[::2] = 0.0
        elif var == "rounded":
            v = np.round(v * 2.4)
            if not v.any():
                v[0] = 1.0
        elif var == "constant":
            v = np.full(n, v[0])
        elif var == "two-valued":
            v = np.where(np.arange(n) % 3 == 0, v[0], v[1])
        return v.astype(complex), v, {}
    if fam == "pay-cplx":
        n, var = spec
        z = payload.cplx(seed, f"c18/pc/{n}/{var}", (n,), 0.2, 1.0)
        if var == "one-zero":
            z[n // 3] = 0.0
        elif var == "unit-moduli":
            z = z / np.abs(z)
        elif var == "nearly-real":
            z = z.real + 1e-3j * z.imag
        return z, None, {}
    if fam == "near":
        kind, sp = spec
        if kind == "int":
            v = np.array(sp, float)
            n = len(v)
            tag = "i" + "".join(str(int(x) + 2) for x in sp)
        else:
            n = sp
            v = payload.entries(seed, f"c18/near/{n}", (n,), 0.2, 1.0)
            tag = f"p{n}"
        w = payload.entries(seed, f"c18/near/w/{tag}", (2, n), 0.2, 1.0)
        return v + 1e-9 * (w[0] + 1j * w[1]), None, {"near": True}
    if fam == "uniform":
        n, spread, mean, kind = spec
        u = payload.entries(seed, f"c18/uni/{n}", (n,), 0.2, 1.0)
        v = mean * (1.0 + spread * u)
        if kind == "collinear":
            return v.astype(complex), v, {"uniform": True}
        w = payload.entries(seed, f"c18/uni/w/{n}", (2, n), 0.2, 1.0)
        return v + (UNI_NONCOL * spread * mean) * (w[0] + 1j * w[1]), None, {"near": True, "uniform": True}
    raise ValueError(fam)


def classify(phi0, base, info):
    zero = bool(np.any(phi0 == 0))
    if info.get("near"):
        cls = "near-collinear"
    elif base is not None:
        cls = "constant-base" if np.all(phi0 == phi0[0]) else "collinear"
    else:
        cls = "general"
    return cls, zero


def mac_ref(x, a):
    return float(np.abs(np.sum(np.conj(x) * a)) ** 2 / (np.sum(np.abs(x) ** 2) * np.sum(np.abs(a) ** 2)))


def scalar(x):
    a = np.asarray(x)
    if a.size != 1:
        return None
    return a.ravel()[0]


def real_value(r):
    """float value of a library result that is one finite real number (a complex type with |imag| <= 1e-12 counts), else None"""
    r = scalar(r)
    if r is None:
        return None
    if np.iscomplexobj(r):
        if abs(r.imag) > SLACK:
            return None
        r = r.real
    r = float(r)
    return r if np.isfinite(r) else None


def variants_of(phi0):
    """(label, scale index, normalised?, vector). Index -1 = the untouched vector."""
    out = [(-1, False, phi0)]
    for i, s in enumerate(SCALES):
        p = s * phi0
        out.append((i, False, p))
        out.append((i, True, p / p[int(np.argmax(np.abs(p)))]))
    return out


# ---------------------------------------------------------------------------------------------
# sequences of indicator calls on the SAME array objects: v (the shape), a (another shape) and w = c v, all three built BEFORE the
# first call; every ordered tuple of indicators is called one after the other on these objects and the LAST call is judged against
# the reference computed from the pristine values (an indicator that leaves anything behind in its argument - a rescaled, conjugated,
# re-typed shape - shows in the next one: MSF is not scale-invariant, MAC/MSF are not conjugation-invariant in one argument)

def seq_call(ind, v, a, w):
    if ind == "MAC":
        return G.MAC(v, a)
    if ind == "MSF":
        return G.MSF(v, w)
    return getattr(G, ind)(v)


def seq_c(k, salt):
    """real factor of the MSF partner for sequence number k (deterministic, rotates through the whole catalogue)"""
    return REAL_C[(5 * k + salt) % len(REAL_C)]


def run_sequences(t, viol, lengths, v0, a0, mk_w, ref, tol, msf_ok, label, salt, ids=None, extra0=None, okkey="seq", fixed_c=None):
    """v0, a0: pristine arrays (never handed to the library); mk_w(c) -> pristine partner holding c * v0; ref: indicator -> reference
    value from the pristine values (None = not judged, MSF: filled in with c); tol: indicator -> tolerance (MSF relative)."""
    k = 0
    for L in lengths:
        for seq in itertools.product(INDS, repeat=L):
            k += 1
            if "MSF" in seq and not msf_ok:
                t.skipped_by_guard += 1
                t.outcomes["seq:skipped(MSF outside its domain)"] += 1
                continue
            c = seq_c(k, salt) if fixed_c is None else fixed_c
            v, a, w = v0.copy(), a0.copy(), mk_w(c)
            name = ">".join(seq)
            extra = dict(extra0 or {})
            extra.update({"sequence": list(seq), "form": label, "c": c})
            t.transitions += 1
            if ids is not None:
                t.nontrivial.add(ids + k)
            last = seq[-1]
            r = None
            try:
                for ind in seq:
                    t.evaluations += 1
                    r = seq_call(ind, v, a, w)
            except Exception as e:
                viol(ind, f"raises-{type(e).__name__}", f"gen.{ind} raised {type(e).__name__}: {e} in the sequence {name} on the same arrays", extra)
                continue
            want = c if last == "MSF" else ref.get(last)
            if want is None:
                t.not_judged += 1
                continue
            t.validated += 1
            rv = real_value(r)
            ok = rv is not None
            if ok:
                e = abs(rv - want) / (abs(want) if last == "MSF" else 1.0)
                ok = e <= tol[last]
            if not ok:
                viol(last, "value-after-" + ">".join(seq[:-1]),
                     f"gen.{last} = {r!r} as call #{L} of the sequence {name} on the same array objects (v = {np.asarray(v0).tolist()[:6]}, "
                     f"a = another shape, w = c v with c = {c!r}, all built before the first call); the pristine values give {want!r}; "
                     f"v is now {np.asarray(v).tolist()[:4]}", extra)
            else:
                t.err(f"{okkey}:{last}", e)
                t.outcomes[f"{okkey}:{name}:ok" if (L == 2 and okkey == "seq") else f"{okkey}:length-{L}:last={last}:ok"] += 1


# ---------------------------------------------------------------------------------------------
# judging one vector under all scales

def judge_vector(t, seed, fam, spec, vid=None):
    phi0, base, info = build(seed, fam, spec)
    if not phi0.any():
        return
    cls, zero = classify(phi0, base, info)
    tag = cls + ("+zero" if zero else "") + ("+nearly-uniform" if info.get("uniform") else "")
    case = {"route": "vector", "seed": seed, "fam": fam, "spec": spec}
    G.bind(t, case)
    nnz = int(np.count_nonzero(phi0))
    sv = np.linalg.svd(np.c_[phi0.real, phi0.imag], compute_uv=False)
    isotropic = (sv[0] - sv[1]) < 0.05 * sv[0]
    t.states += 1
    t.outcomes[f"class:{tag}"] += 1
    if isotropic:
        t.outcomes["class:isotropic(MPD invariance not judged)"] += 1

    def viol(ind, kind, msg, extra):
        key = KNOWN_MPC if (ind == "MPC" and cls == "constant-base") else f"{ind}:{kind}:{tag}"
        c = dict(case)
        c.update(extra)
        t.violation(key, msg, c)
        t.outcomes[f"BAD:{ind}:{kind}"] += 1

    ref = {}
    ref7n = {}
    for si, normed, phi in variants_of(phi0):
        extra = {"scale_index": si, "normalised": normed}
        t.evaluations += 4
        t.transitions += 1
        if vid is not None and nnz >= 2 and si != -1:
            t.nontrivial.add((vid << 6) | ((si + 1) * 2 + (1 if normed else 0)))
        vals = {}
        for ind, f in (("MPD", lambda p: G.MPD(p)), ("MPC", lambda p: G.MPC(p)), ("MCF", lambda p: G.MCF(p)),
                       ("MAC", lambda p: G.MAC(p, phi0.copy()))):
            try:
                r = scalar(f(phi.copy()))
            except Exception as e:
                viol(ind, f"raises-{type(e).__name__}", f"gen.{ind} raised {type(e).__name__}: {e} on {phi.tolist()[:6]}", extra)
                continue
            if r is None:
                viol(ind, "shape", f"gen.{ind} did not return one value for a 1-D shape", extra)
                continue
            if np.iscomplexobj(r):
                if abs(r.imag) > SLACK:
                    viol(ind, "complex-value", f"gen.{ind} = {r} (complex) on {phi.tolist()[:6]}", extra)
                    continue
                r = r.real
            r = float(r)
            t.validated += 1
            if not np.isfinite(r):
                viol(ind, "not-finite", f"gen.{ind} = {r} on {phi.tolist()[:6]} (n={len(phi)}, class {tag})", extra)
                continue
            hi = np.pi / 2 if ind == "MPD" else 1.0
            if not (-SLACK <= r <= hi + SLACK):
                viol(ind, "bound", f"gen.{ind} = {r!r} outside [0, {hi:.6g}] on {phi.tolist()[:6]}", extra)
                continue
            vals[ind] = r
        # exact values on collinear shapes
        if cls in ("collinear", "constant-base"):
            for ind, want, tol in (("MPD", 0.0, TOL_MPD), ("MPC", 1.0, TOL_COL), ("MCF", 0.0, TOL_COL), ("MAC", 1.0, TOL_INV)):
                if ind in vals:
                    e = abs(vals[ind] - want)
                    t.err(f"collinear:{ind}", e)
                    if not e <= tol:
                        viol(ind, "collinear-value", f"gen.{ind} = {vals[ind]!r} on a complex multiple of the real vector "
                             f"{base.tolist()[:6]} (expected {want})", extra)
                        vals.pop(ind)
            # MAC with the real base vector itself
            try:
                a = scalar(G.MAC(phi.copy(), base.astype(complex)))
                a = None if a is None else float(np.real(a))
            except Exception as e:
                a = None
                viol("MAC", f"raises-{type(e).__name__}", f"gen.MAC raised {e}", extra)
            t.evaluations += 1
            if a is not None:
                t.validated += 1
                if not (np.isfinite(a) and abs(a - 1) <= TOL_INV):
                    viol("MAC", "collinear-value", f"MAC(c*v, v) = {a!r} for real v = {base.tolist()[:6]}", extra)
        # MAC is invariant under scaling of EITHER argument: MAC(p, p) = 1 and MAC(p, s' phi0) = MAC(p, phi0) for the
        # smallest and largest scale of the catalogue applied to the second argument
        for lab, second in (("self", phi.copy()), ("second-arg-small", SCALES[1] * phi0), ("second-arg-large", SCALES[-2] * phi0)):
            t.evaluations += 1
            try:
                r2 = scalar(G.MAC(phi.copy(), second))
                r2 = None if r2 is None else float(np.real(r2))
            except Exception as e:
                viol("MAC", f"raises-{type(e).__name__}", f"gen.MAC raised {type(e).__name__}: {e}", extra)
                continue
            want2 = 1.0 if lab == "self" else vals.get("MAC")
            if want2 is None:
                continue
            t.validated += 1
            if r2 is None or not np.isfinite(r2) or abs(r2 - want2) > TOL_INV:
                viol("MAC", f"invariance-{lab}", f"MAC(p, q) = {r2!r}, expected {want2!r}: p = scale#{si}{' normalised' if normed else ''} of "
                     f"{phi0.tolist()[:6]}, q = {lab}", extra)
            else:
                t.err("invariance:MAC-both-args", abs(r2 - want2))
        # invariance against the untouched vector
        if si == -1:
            ref = dict(vals)
            continue
        if si == 7 and normed:
            ref7n = dict(vals)          # single-call values of the unit-normalised form used by the call sequences below
        for ind, r in vals.items():
            if ind not in ref:
                t.not_judged += 1
                continue
            if ind == "MPD" and isotropic:
                t.not_judged += 1
                continue
            tol = TOL_MPD if ind == "MPD" else TOL_INV
            e = abs(r - ref[ind])
            t.err(f"invariance:{ind}", e)
            if not e <= tol:
                s = SCALES[si]
                viol(ind, "invariance", f"gen.{ind} = {r!r} after scaling by {s:.6g}{' and unit-normalising' if normed else ''}, "
                     f"{ref[ind]!r} before, on {phi0.tolist()[:6]}", extra)
    # the SAME array object, rescaled in place between two calls (a shape being normalised by its owner): MAC must follow
    # the values now in the array, whatever was in it at the previous call
    x = phi0.copy()
    other = (SCALES[9] * phi0).copy()
    try:
        m0 = scalar(G.MAC(x, other))
        for s_ in (SCALES[2], SCALES[-3]):
            x *= s_
            m1 = scalar(G.MAC(x, other))
            t.evaluations += 1
            t.validated += 1
            if m0 is None or m1 is None or not np.isfinite(m1) or abs(float(np.real(m1)) - float(np.real(m0))) > TOL_INV:
                viol("MAC", "invariance-same-array-rescaled-in-place",
                     f"MAC(x, a) = {m1!r} after x *= {s_:.4g} in place, {m0!r} before, x0 = {phi0.tolist()[:6]}", {"inplace": True})
                break
        else:
            t.outcomes["MAC:same-array-rescaled-in-place:ok"] += 1
    except Exception as e:
        viol("MAC", f"raises-{type(e).__name__}", f"gen.MAC raised {type(e).__name__}: {e}", {"inplace": True})
    # MSF(v, c v) = c
    for label, v in (("raw", phi0), ("scaled", SCALES[7] * phi0), ("real-base", base)):
        if v is None:
            continue
        if label == "real-base":
            v = np.asarray(base, float)
        vtv = abs(np.sum(v * v))
        if not vtv >= 0.2 * np.sum(np.abs(v) ** 2):
            t.skipped_by_guard += 1
            t.outcomes["MSF:outside-domain"] += 1
            continue
        for c in REAL_C:
            t.evaluations += 1
            t.transitions += 1
            extra = {"msf_input": label, "c": c}
            try:
                r = scalar(G.MSF(v.copy(), c * v))
            except Exception as e:
                viol("MSF", f"raises-{type(e).__name__}", f"gen.MSF raised {type(e).__name__}: {e}", extra)
                continue
            t.validated += 1
            if r is None or not np.isfinite(r) or not abs(r - c) <= 1e-12 * abs(c):
                viol("MSF", "value", f"MSF(v, c v) = {r!r} for c = {c!r}, v = {v.tolist()[:6]}", extra)
            else:
                t.err("MSF:rel", abs(r - c) / abs(c))
                t.outcomes["MSF:ok:" + ("c<0" if c < 0 else "c>0")] += 1
    # sequences of calls on the same array objects: all ordered pairs of indicators on the raw shape and (all families but the bulk of
    # real integer vectors with 4 components) on the shape scaled and normalised to a unit component; all ordered triples on payload shapes
    a0 = np.roll(phi0, 1)
    a0[0] += 3.5 + 0.5j
    vtv0 = abs(np.sum(phi0 * phi0))
    msf_ok = bool(vtv0 >= 0.2 * np.sum(np.abs(phi0) ** 2))
    tol = {"MAC": TOL_INV, "MPC": TOL_INV, "MCF": TOL_INV, "MPD": TOL_MPD, "MSF": 1e-12}
    p7 = SCALES[7] * phi0
    forms = [("raw", phi0)]
    if not (fam == "int-real" and len(phi0) >= 4):
        forms.append(("unit-normalised", p7 / p7[int(np.argmax(np.abs(p7)))]))
    single = [ref, ref7n]           # MPC / MPD of the two forms from one call on a fresh copy (made and judged in the loop above)
    for fi, (label, v0) in enumerate(forms):
        sref = {"MAC": mac_ref(v0, a0), "MCF": mcf_ref(v0)}
        for ind in ("MPC", "MPD"):
            if (ind == "MPC" and cls == "constant-base") or (ind == "MPD" and isotropic):
                continue            # listed known finding / reference direction undefined: value not judged (as above)
            if ind in single[fi]:
                sref[ind] = single[fi][ind]
        lengths = (2, 3) if (fam in ("pay-real", "pay-cplx") and fi == 0) else (2,)
        ids = None if vid is None else _CFG.get("seq_off", 0) + vid * 512 + fi * 256
        run_sequences(t, viol, lengths, v0, a0, lambda c, v0=v0: c * v0, sref, tol, msf_ok, label, len(phi0) + nnz + 7 * fi,
                      ids if nnz >= 2 else None)
    t.outcomes["vector-judged"] += 1
    if info.get("uniform") and cls != "constant-base":
        # vacuity monitors of the nearly uniform family: the shape was judged (not taken for a constant one), per spread / kind / size / mean
        t.outcomes[f"uniform:{spec[3]}:spread={spec[1]:g}:judged"] += 1
        t.outcomes[f"uniform:n={spec[0]}:judged"] += 1
        t.outcomes[f"uniform:mean={spec[2]:g}:judged"] += 1
        t.outcomes["uniform:MPC-judged-against-1" if cls == "collinear" else "uniform:MPC-judged-for-invariance"] += int("MPC" in ref)


def uniform_space(thorough):
    return [("uniform", [n, s, m, kind]) for kind in UNI_KINDS for s in UNI_SPREADS for n in (UNI_N_THOROUGH if thorough else UNI_N)
            for m in UNI_MEANS if kind == "collinear" or s >= UNI_NEAR_MIN_SPREAD]


# ---------------------------------------------------------------------------------------------
# MAC matrices on pairs of shape sets

def gauss_vectors(alpha, n):
    return [v for v in itertools.product(alpha, repeat=n) if any(v)]


def judge_macsets(t, alpha, n, ix, ia_list, pid_base=None):
    """X = 2-shape set number ix, A runs over ia_list (indices of ordered 2-sets over the same vectors)."""
    vecs = gauss_vectors(alpha, n)
    nv = len(vecs)
    X = np.array([vecs[ix // nv], vecs[ix % nv]], complex).T
    for ia in ia_list:
        A = np.array([vecs[ia // nv], vecs[ia % nv]], complex).T
        case = {"route": "macsets", "alphabet": [str(a) for a in alpha], "n": n, "ix": ix, "ia": ia}
        G.bind(t, case)
        t.states += 1
        t.transitions += 1
        t.evaluations += 3
        if pid_base is not None and ix != ia:
            t.nontrivial.add(pid_base + ia)
        try:
            M = np.asarray(G.MAC(X.copy(), A.copy()))
            Mt = np.asarray(G.MAC(A.copy(), X.copy()))
            # rectangular: first shape of X alone (1-D) against the set A, and X against A extended with X's first shape
            M1 = np.asarray(G.MAC(X[:, 0].copy(), A.copy()))
            A3 = np.c_[A, X[:, 0]]
            M3 = np.asarray(G.MAC(X.copy(), A3))
            # the two sets handed over as two VIEWS OF ONE ARRAY (a table of shapes split in two; adjacent and overlapping column blocks):
            # an indicator is a function of the values, whatever memory they live in
            B = np.ascontiguousarray(np.c_[X, A])
            Mv = np.asarray(G.MAC(B[:, :2], B[:, 2:]))
            Mvt = np.asarray(G.MAC(B[:, 2:], B[:, :2]))
            Mo = np.asarray(G.MAC(B[:, 0:2], B[:, 1:3]))           # overlapping blocks: (x0, x1) against (x1, a0)
            t.evaluations += 3
        except Exception as e:
            t.violation(f"MAC:raises-{type(e).__name__}:sets", f"gen.MAC raised {type(e).__name__}: {e}", case)
            continue
        ref = np.array([[mac_ref(X[:, i], A[:, j]) for j in range(2)] for i in range(2)])
        # both sets scaled (per shape) by catalogue factors: the matrix must not change
        for (s1, s2) in PAIR_SCALES:
            t.evaluations += 1
            try:
                Ms = np.asarray(G.MAC(X * np.array([s1, np.conj(s1)]), A * np.array([s2, -s2])))
            except Exception as e:
                t.violation(f"MAC:raises-{type(e).__name__}:sets", f"gen.MAC raised {type(e).__name__}: {e}", case)
                continue
            t.validated += 1
            if Ms.shape != ref.shape or not np.all(np.isfinite(Ms)) or float(np.max(np.abs(Ms - ref))) > TOL_INV:
                t.violation("MAC:invariance:sets-both-scaled", f"MAC of the sets scaled by {s1:.3g} and {s2:.3g} = {Ms.tolist()}, unscaled definition {ref.tolist()} "
                            f"for X = {X.T.tolist()}, A = {A.T.tolist()}", case)
        ref3 = np.c_[ref, [[mac_ref(X[:, i], X[:, 0])] for i in range(2)]]
        ok = True
        refo = np.array([[mac_ref(X[:, i], v) for v in (X[:, 1], A[:, 0])] for i in range(2)])
        for nm, got, want in (("XA", M, ref), ("AX", Mt, ref.T), ("1D-vs-set", M1, ref[:1]), ("2x3", M3, ref3),
                              ("XA:two-views-of-one-array", Mv, ref), ("AX:two-views-of-one-array", Mvt, ref.T),
                              ("overlapping-views-of-one-array", Mo, refo)):
            t.validated += 1
            if got.shape != want.shape:
                t.violation(f"MAC:shape:{nm}", f"MAC has shape {got.shape}, expected {want.shape} (rows = shapes of the first set)", case)
                ok = False
                continue
            if np.iscomplexobj(got) or not np.all(np.isfinite(got)):
                t.violation(f"MAC:not-finite-or-complex:{nm}", f"MAC = {got.tolist()}", case)
                ok = False
                continue
            if np.any(got < -SLACK) or np.any(got > 1 + SLACK):
                t.violation(f"MAC:bound:{nm}", f"MAC = {got.tolist()} outside [0, 1]", case)
                ok = False
                continue
            e = float(np.max(np.abs(got - want)))
            t.err("MAC:sets", e)
            if not e <= TOL_INV:
                sym = got.shape == want.T.shape and float(np.max(np.abs(got - want.T))) <= TOL_INV
                t.violation(f"MAC:{'transposed' if sym else 'value'}:{nm}",
                            f"MAC(X, A) = {got.tolist()}, definition gives {want.tolist()} for X = {X.T.tolist()}, A = {A.T.tolist()}", case)
                ok = False
        if ok and M.shape == Mt.T.shape and not np.array_equal(np.round(M, 9), np.round(Mt.T, 9)) and np.max(np.abs(M - Mt.T)) > TOL_INV:
            t.violation("MAC:not-symmetric-under-transposition", f"MAC(X,A) = {M.tolist()} but MAC(A,X)^T = {Mt.T.tolist()}", case)
            ok = False
        t.outcomes["macsets:ok" if ok else "macsets:BAD"] += 1
        if ok and abs(ref[0, 1] - ref[1, 0]) > 1e-6:
            t.outcomes["macsets:two-views-of-one-array:asymmetric-matrix-judged"] += 1
        if ok and abs(ref[0, 1] - ref[1, 0]) > 1e-6:
            t.outcomes["macsets:asymmetric-matrix(orientation observable)"] += 1


# ---------------------------------------------------------------------------------------------
# dtype axis: the same VALUES handed over as int64 / int32 / float32 / float64 / complex64 / complex128 arrays (a shape typed by
# hand or read from a table of integers is an integer array), mixed between the two arguments of MAC / MSF. An indicator is a
# function of the values of a shape, not of the array's storage type: the reference is computed in complex128 from the values
# actually stored in the cast array.

DTYPES = ["int64", "int32", "float32", "float64", "complex64", "complex128"]
REAL_DT = DTYPES[:4]
FLOAT_DT = DTYPES[2:]
CPLX_DT = DTYPES[4:]
SINGLE_DT = ("float32", "complex64")
C_GAUSS = 2 - 1j               # complex factor whose products with integers are exact in every complex dtype
MSF_INT_C = [3, -20]           # real factors c with c*v representable in every dtype of the axis
MSF_HALF_C = -0.5              # non-integer factor (c*v exact in every floating dtype)
# single-precision input gets single-precision tolerances (eps32 = 1.2e-7): 2e-6 ~ 16 eps32 for the rational indicators,
# 2e-3 ~ sqrt(2 * 16 eps32) for MPD (arccos near 1), 1e-6 relative for MSF. All other dtypes keep the tolerances of the rest of the check.
TOL32_INV = 2e-6
TOL32_MPD = 2e-3
TOL32_MSF = 1e-6
SLACK32 = 1e-6                 # bounds slack for single-precision input (|x^H a|^2 is formed in float32: 1 + eps32 on collinear shapes)
DT_POOL = [[1, 2, 0], [2, -1, 3], [1, 1, 1], [0, -2, 2], [1j, 1 + 1j, 2 - 1j], [1, -1j, 0]]
DT_TABLE_N = [3, 8, 16, 64]
DT_TABLE_VARIANTS = ["plain", "one-zero", "half-zeros"]
DT_PAY_N = [8, 64]


def cast(z, d):
    """The values of z as an array of dtype d (exactly: asserts that nothing is lost except float32 rounding of non-integers)."""
    z = np.asarray(z)
    if d.startswith("complex"):
        return z.astype(d)
    if np.iscomplexobj(z):
        if z.imag.any():
            raise ValueError("complex values cannot be cast to a real dtype")
        z = z.real
    out = np.ascontiguousarray(z.astype(d))
    if d.startswith("int") and not np.array_equal(out, z):
        raise ValueError("non-integer values cannot be cast to an integer dtype")
    return out


def admissible(z):
    """dtypes that can hold the values of z (decided from the input values)."""
    z = np.asarray(z)
    if np.iscomplexobj(z) and z.imag.any():
        return CPLX_DT
    r = z.real
    return DTYPES if np.array_equal(r, np.rint(r)) else FLOAT_DT


def up(p):
    return np.asarray(p).astype(complex)


def dclass(*ds):
    """(class for outcome counters and violation keys, single precision involved?)"""
    single = any(d in SINGLE_DT for d in ds)
    if any(d.startswith("int") for d in ds):
        cls = "int-typed"
    elif single:
        cls = "single"
    else:
        cls = "double"
    return cls, single


def mcf_ref(z):
    x, y = z.real, z.imag
    sxx, syy, sxy = float(x @ x), float(y @ y), float(x @ y)
    return 1.0 - ((sxx - syy) ** 2 + 4 * sxy ** 2) / (sxx + syy) ** 2


def build_dt(seed, fam, spec):
    """-> complex128 vector holding the values of the shape."""
    if fam == "dt-int":
        return np.array(spec, complex)
    if fam == "dt-gauss":
        return np.array([_cplx(x) for x in spec], complex)
    if fam == "dt-table":
        n, var = spec
        v = np.round(9 * payload.entries(seed, f"c18/dt/tab/{n}/{var}", (n,), 0.2, 1.0))   # integers with 2 <= |v| <= 9
        if var == "one-zero":
            v[n // 3] = 0.0
        elif var == "half-zeros":
            v[1::2] = 0.0
        return v.astype(complex)
    if fam == "dt-pay":
        (n,) = spec
        return payload.cplx(seed, f"c18/dt/pay/{n}", (n,), 0.2, 1.0)
    raise ValueError(fam)


def _indicator(t, viol, ind, f, what, extra):
    """Call, then the generic judgements (one value, real, finite, bounds). -> float or None."""
    t.evaluations += 1
    try:
        r = scalar(f())
    except Exception as e:
        viol(ind, f"raises-{type(e).__name__}", f"gen.{ind} raised {type(e).__name__}: {e} on {what}", extra)
        return None
    if r is None:
        viol(ind, "shape", f"gen.{ind} did not return one value on {what}", extra)
        return None
    if np.iscomplexobj(r):
        if abs(r.imag) > SLACK:
            viol(ind, "complex-value", f"gen.{ind} = {r} (complex) on {what}", extra)
            return None
        r = r.real
    r = float(r)
    t.validated += 1
    if not np.isfinite(r):
        viol(ind, "not-finite", f"gen.{ind} = {r} on {what}", extra)
        return None
    if ind != "MSF":
        hi = np.pi / 2 if ind == "MPD" else 1.0
        slack = SLACK32 if any(d in SINGLE_DT for d in extra["dtypes"]) else SLACK
        if not (-slack <= r <= hi + slack):
            viol(ind, "bound", f"gen.{ind} = {r!r} outside [0, {hi:.6g}] on {what}", extra)
            return None
    return r


def judge_dtvector(t, seed, fam, spec, did=None):
    z = build_dt(seed, fam, spec)
    if not z.any():
        return
    n = len(z)
    real = not z.imag.any()
    re_, im_ = z.real, z.imag
    # exactly collinear (a complex multiple of a real vector): decided from the input (exact for the integer-valued families)
    col = real or all(re_[i] * im_[j] - re_[j] * im_[i] == 0 for i in range(n) for j in range(i + 1, n))
    constant = bool(np.all(z == z[0]))
    adm = admissible(z)
    case = {"route": "dtype-vector", "seed": seed, "fam": fam, "spec": spec}
    G.bind(t, case)
    t.states += 1
    t.outcomes["dtype:class:" + ("constant-base" if constant else "collinear" if col else "general")
               + ("+zero" if np.any(z == 0) else "")] += 1
    nid = [0]

    def viol(ind, kind, msg, extra):
        cls = dclass(*extra["dtypes"])[0]
        key = KNOWN_MPC if (ind == "MPC" and constant) else f"{ind}:dtype:{kind}:{cls}"
        c = dict(case)
        c.update(extra)
        t.violation(key, msg, c)
        t.outcomes[f"BAD:{ind}:dtype:{kind}"] += 1

    def good(ind, ds):
        cls = dclass(*ds)[0]
        t.outcomes[f"dtype:{ind}:{cls}:ok"] += 1
        t.transitions += 1
        if did is not None and cls != "double":
            nid[0] += 1
            t.nontrivial.add(did + nid[0])

    def show(p):
        return f"{p.dtype} array {p.tolist()[:6]}" + (f" (n={len(p)})" if len(p) > 6 else "")

    # --- one-argument indicators: every admissible dtype of the shape itself and, for a real shape, of its complex multiple
    shapes = [("shape", z, adm)]
    if real:
        shapes.append(("complex-multiple", C_GAUSS * z, CPLX_DT))
    for label, s, ds in shapes:
        for d in ds:
            p = cast(s, d)
            single = d in SINGLE_DT
            extra = {"dtypes": [d], "form": label}
            pu = up(p)
            for ind, f in (("MPD", G.MPD), ("MPC", G.MPC), ("MCF", G.MCF)):
                r = _indicator(t, viol, ind, lambda: f(p.copy()), show(p), extra)
                if r is None:
                    continue
                if col:
                    want = 1.0 if ind == "MPC" else 0.0
                    tol = (TOL32_MPD if ind == "MPD" else TOL32_INV) if single else (TOL_MPD if ind == "MPD" else TOL_COL)
                    why = "a complex multiple of a real vector"
                else:
                    if d == "complex128":
                        continue          # this is the reference itself (judged by the vector route)
                    if ind == "MCF":
                        want = mcf_ref(pu)
                    else:
                        if ind == "MPD":
                            sv = np.linalg.svd(np.c_[pu.real, pu.imag], compute_uv=False)
                            if (sv[0] - sv[1]) < 0.05 * sv[0]:
                                t.not_judged += 1
                                continue
                        want = _indicator(t, viol, ind, lambda: f(pu.copy()), show(pu), {"dtypes": ["complex128"], "form": label})
                        if want is None:
                            continue
                    tol = (TOL32_MPD if ind == "MPD" else TOL32_INV) if single else (TOL_MPD if ind == "MPD" else TOL_INV)
                    why = "the same values as complex128"
                e = abs(r - want)
                t.err(f"dtype:{ind}:{'single' if single else 'double'}", e)
                if not e <= tol:
                    viol(ind, "value", f"gen.{ind} = {r!r} on {show(p)}, expected {want!r} ({why})", extra)
                else:
                    good(ind, [d])

    # --- MAC: second arguments = the shape itself, its complex multiple (real shapes), a different shape of the same kind,
    #     and (complex shapes) a real integer vector; every admissible pair of dtypes, both orders
    w = np.roll(z, 1).copy()
    w[0] += 3
    seconds = [("self", z, adm, 1.0)]
    if real:
        seconds.append(("complex-multiple", C_GAUSS * z, CPLX_DT, 1.0))
    if w.any():
        seconds.append(("other-shape", w, admissible(w), None))
    else:
        t.skipped_by_guard += 1
    if not real:
        rvec = np.array([(2 * i) % 5 - 2 for i in range(n)], complex)
        rvec[0] = 1
        seconds.append(("real-integer-vector", rvec, DTYPES, None))
    for label, s, ds, exact in seconds:
        for dx in adm:
            x = cast(z, dx)
            for da in ds:
                a = cast(s, da)
                cls, single = dclass(dx, da)
                tol = TOL32_INV if single else TOL_INV
                want = exact if exact is not None else mac_ref(up(x), up(a))
                orders = [("XA", x, a)] if label == "self" else [("XA", x, a), ("AX", a, x)]
                for order, p, q in orders:
                    extra = {"dtypes": [dx, da], "form": f"MAC:{label}:{order}"}
                    r = _indicator(t, viol, "MAC", lambda: G.MAC(p.copy(), q.copy()), f"({show(p)}, {show(q)})", extra)
                    if r is None:
                        continue
                    e = abs(r - want)
                    t.err(f"dtype:MAC:{'single' if single else 'double'}", e)
                    if not e <= tol:
                        kind = "collinear-value" if exact is not None else "value"
                        viol("MAC", kind, f"MAC({show(p)}, {show(q)}) = {r!r}, the definition on the same values gives {want!r}", extra)
                    else:
                        good("MAC", [dx, da])

    # --- MSF(v, c v) = c and MSF(c v, v) = 1/c: integer c in every pair of dtypes, a non-integer c when c v is floating
    vtv = abs(np.sum(z * z))
    if not vtv >= 0.2 * np.sum(np.abs(z) ** 2):
        t.skipped_by_guard += 1
        t.outcomes["dtype:MSF:outside-domain"] += 1
    else:
        for c in MSF_INT_C + [MSF_HALF_C]:
            cz = c * z
            for dx in adm:
                x = cast(z, dx)
                for da in admissible(cz):
                    if da not in adm:
                        continue
                    a = cast(cz, da)
                    cls, single = dclass(dx, da)
                    tol = TOL32_MSF if single else 1e-12
                    for order, p, q, want in (("v,cv", x, a, c), ("cv,v", a, x, 1.0 / c)):
                        extra = {"dtypes": [dx, da], "form": f"MSF:{order}", "c": c}
                        r = _indicator(t, viol, "MSF", lambda: G.MSF(p.copy(), q.copy()), f"({show(p)}, {show(q)})", extra)
                        if r is None:
                            continue
                        e = abs(r - want) / abs(want)
                        t.err(f"dtype:MSF:rel:{'single' if single else 'double'}", e)
                        if not e <= tol:
                            viol("MSF", "value", f"MSF({show(p)}, {show(q)}) = {r!r}, expected {want!r} (c = {c})", extra)
                        else:
                            good("MSF", [dx, da])
    # --- sequences of calls on the same array objects of every admissible dtype (table and payload shapes): all ordered pairs of
    #     indicators, the partner w = 3 v and the other shape a in the same dtype, built before the first call
    if fam in ("dt-table", "dt-pay"):
        for d in adm:
            if d not in admissible(w) or not w.any():
                t.skipped_by_guard += 1
                continue
            p, q = cast(z, d), cast(w, d)
            pu, qu = up(p), up(q)
            single = d in SINGLE_DT
            ref = {"MAC": mac_ref(pu, qu), "MCF": 0.0 if col else mcf_ref(pu)}
            if col:
                ref.update(MPC=1.0, MPD=0.0)
            else:
                sv = np.linalg.svd(np.c_[pu.real, pu.imag], compute_uv=False)
                for ind in ("MPC", "MPD"):
                    if ind == "MPD" and (sv[0] - sv[1]) < 0.05 * sv[0]:
                        continue
                    r = _indicator(t, viol, ind, lambda: getattr(G, ind)(pu.copy()), show(pu), {"dtypes": ["complex128"], "form": "sequence-reference"})
                    if r is not None:
                        ref[ind] = r
            if constant:
                ref.pop("MPC", None)
            if single:
                tol = {"MAC": TOL32_INV, "MPC": TOL32_INV, "MCF": TOL32_INV, "MPD": TOL32_MPD, "MSF": TOL32_MSF}
            else:
                tol = {"MAC": TOL_INV, "MPC": TOL_COL if col else TOL_INV, "MCF": TOL_COL if col else TOL_INV, "MPD": TOL_MPD, "MSF": 1e-12}
            msf_ok = bool(vtv >= 0.2 * np.sum(np.abs(z) ** 2))
            run_sequences(t, viol, (2,), p, q, lambda c, p=p: (3 * p).astype(p.dtype), ref, tol, msf_ok, f"dtype:{d}", 0,
                          extra0={"dtypes": [d]}, okkey=f"dtype:seq:{dclass(d)[0]}", fixed_c=3)
    t.outcomes["dtype:vector-judged"] += 1


def _judge_mac_matrix(t, case, nm, got, want, dx, da):
    """MAC matrix against the definition: shape (rows = shapes of the first set), real, finite, bounds, values."""
    cls, single = dclass(dx, da)
    tol = TOL32_INV if single else TOL_INV
    t.validated += 1
    got = np.asarray(got)
    c = dict(case)
    c.update({"dtypes": [dx, da], "form": nm})
    if got.shape != want.shape:
        t.violation(f"MAC:dtype:shape:{nm}:{cls}", f"MAC has shape {got.shape}, expected {want.shape} (rows = shapes of the first set) for dtypes {dx}, {da}", c)
        return False
    if np.iscomplexobj(got) or not np.all(np.isfinite(got)):
        t.violation(f"MAC:dtype:not-finite-or-complex:{nm}:{cls}", f"MAC = {got.tolist()} for dtypes {dx}, {da}", c)
        return False
    slack = SLACK32 if single else SLACK
    if np.any(got < -slack) or np.any(got > 1 + slack):
        t.violation(f"MAC:dtype:bound:{nm}:{cls}", f"MAC = {got.tolist()} outside [0, 1] for dtypes {dx}, {da}", c)
        return False
    e = float(np.max(np.abs(got - want)))
    t.err(f"dtype:MAC:sets:{'single' if single else 'double'}", e)
    if not e <= tol:
        sym = got.shape == want.T.shape and float(np.max(np.abs(got - want.T))) <= tol
        t.violation(f"MAC:dtype:{'transposed' if sym else 'value'}:{nm}:{cls}",
                    f"MAC of a {dx} set and a {da} set = {got.tolist()}, the definition on the same values gives {want.tolist()}", c)
        return False
    return True


def judge_dtsets(t, ix, ia_list, pid_base=None):
    """X = ordered pair number ix of pool shapes, A runs over ia_list; every admissible pair of dtypes."""
    npool = len(DT_POOL)
    X = np.array([DT_POOL[ix // npool], DT_POOL[ix % npool]], complex).T
    for ia in ia_list:
        A = np.array([DT_POOL[ia // npool], DT_POOL[ia % npool]], complex).T
        case = {"route": "dtype-sets", "ix": ix, "ia": ia}
        G.bind(t, case)
        ref = np.array([[mac_ref(X[:, i], A[:, j]) for j in range(2)] for i in range(2)])
        k = 0
        for dx in admissible(X):
            Xd = cast(X, dx)
            for da in admissible(A):
                Ad = cast(A, da)
                k += 1
                cls = dclass(dx, da)[0]
                t.states += 1
                t.transitions += 1
                t.evaluations += 4
                if pid_base is not None and cls != "double":
                    t.nontrivial.add(pid_base + ia * 36 + k)
                try:
                    forms = (("XA", G.MAC(Xd.copy(), Ad.copy()), ref),
                             ("AX", G.MAC(Ad.copy(), Xd.copy()), ref.T),
                             ("1D-vs-set", G.MAC(Xd[:, 0].copy(), Ad.copy()), ref[:1]),
                             ("set-vs-1D", G.MAC(Xd.copy(), Ad[:, 1].copy()), ref[:, 1:]))
                except Exception as e:
                    c = dict(case)
                    c["dtypes"] = [dx, da]
                    t.violation(f"MAC:dtype:raises-{type(e).__name__}:sets:{cls}", f"gen.MAC raised {type(e).__name__}: {e} for a {dx} set and a {da} set", c)
                    continue
                ok = True
                for nm, got, want in forms:
                    ok = _judge_mac_matrix(t, case, nm, got, want, dx, da) and ok
                t.outcomes[f"dtype:sets:{cls}:" + ("ok" if ok else "BAD")] += 1


def judge_dttable(t, seed, n, pid_base=None):
    """A set of 3 complex payload shapes against a table of 2 integer-valued real shapes with n components."""
    Phi = payload.cplx(seed, f"c18/dt/phi/{n}", (n, 3), 0.2, 1.0)
    V = np.round(9 * payload.entries(seed, f"c18/dt/V/{n}", (n, 2), 0.2, 1.0))
    V[n // 3, 0] = 0.0
    case = {"route": "dtype-table", "seed": seed, "n": n}
    G.bind(t, case)
    k = 0

    def one(nm, P, Q, dp, dq):
        cls = dclass(dp, dq)[0]
        t.states += 1
        t.transitions += 1
        t.evaluations += 1
        Pu, Qu = up(P), up(Q)
        want = np.array([[mac_ref(Pu[:, i], Qu[:, j]) for j in range(Qu.shape[1])] for i in range(Pu.shape[1])])
        try:
            got = G.MAC(P.copy(), Q.copy())
        except Exception as e:
            c = dict(case)
            c["dtypes"] = [dp, dq]
            t.violation(f"MAC:dtype:raises-{type(e).__name__}:table:{cls}", f"gen.MAC raised {type(e).__name__}: {e} for a {dp} set and a {dq} set", c)
            return
        ok = _judge_mac_matrix(t, case, nm, got, want, dp, dq)
        t.outcomes[f"dtype:table:{cls}:" + ("ok" if ok else "BAD")] += 1

    for dv in DTYPES:
        Vd = cast(V, dv)
        for dp in CPLX_DT:
            Pd = cast(Phi, dp)
            k += 1
            if pid_base is not None and dclass(dp, dv)[0] != "double":
                t.nontrivial.add(pid_base + k)
            one("table:3x2", Pd, Vd, dp, dv)
            one("table:2x3", Vd, Pd, dv, dp)
        for dw in DTYPES:
            k += 1
            if pid_base is not None and dclass(dw, dv)[0] != "double":
                t.nontrivial.add(pid_base + k)
            one("table:2x2", Vd, cast(V[:, ::-1] + np.array([[1.0, 0.0]]), dw), dv, dw)


# ---------------------------------------------------------------------------------------------
# sequences of indicator calls on the same SETS of shapes (2-D arrays: C order, Fortran order, a strided view into a larger array)
# and on column views of them: operations on the whole set (MAC(X, A), MCF(X), MSF(X, W)) and on one column view X[:, j]
# (MAC, MPC, MPD, MCF, MSF), every ordered pair, the second call judged against the reference from the pristine values

SEQ_LAYOUTS = ["C-order", "F-order", "strided-view"]
SEQ_SET_OPS = ["MAC", "MCF", "MSF", "MAC.col", "MPC.col", "MPD.col", "MCF.col", "MSF.col"]
SEQ_PAY_NK = [(8, 2), (8, 3), (16, 3), (16, 5), (64, 2), (64, 5)]


def seqsets_space():
    out = [("pool", [i, j]) for i in range(len(DT_POOL)) for j in range(len(DT_POOL))]
    out += [("pay", [n, k]) for n, k in SEQ_PAY_NK]
    return [(kind, spec, lay) for kind, spec in out for lay in SEQ_LAYOUTS]


def lay_out(M, layout):
    """A fresh array object holding the values of M in the given memory layout."""
    if layout == "C-order":
        return np.array(M, order="C")
    if layout == "F-order":
        return np.array(M, order="F")
    n, k = M.shape
    big = np.full((2 * n + 1, k + 2), 0.25 - 0.75j)
    view = big[1::2, 1:1 + k]
    view[...] = M
    return view


def judge_seqsets(t, seed, kind, spec, layout, sid=None):
    if kind == "pool":
        X0 = np.array([DT_POOL[spec[0]], DT_POOL[spec[1]]], complex).T
    else:
        n_, k_ = spec
        X0 = payload.cplx(seed, f"c18/seq/X/{n_}/{k_}", (n_, k_), 0.2, 1.0, phase_spread=0.5)
    n, k = X0.shape
    j = k - 1
    cs = np.array([REAL_C[(3 * i + n + k) % len(REAL_C)] for i in range(k)])
    W0 = X0 * cs
    A0 = np.roll(X0, 1, axis=0)[:, ::-1].copy()
    A0[0] += 3.5 + 0.5j
    case = {"route": "seq-sets", "seed": seed, "kind": kind, "spec": spec, "layout": layout}
    G.bind(t, case)
    t.states += 1
    # classes from the input
    dom = [bool(abs(np.sum(X0[:, i] * X0[:, i])) >= 0.2 * np.sum(np.abs(X0[:, i]) ** 2)) for i in range(k)]
    xj = X0[:, j].copy()
    sv = np.linalg.svd(np.c_[xj.real, xj.imag], compute_uv=False)
    iso_j = (sv[0] - sv[1]) < 0.05 * sv[0]
    const_j = bool(np.all(xj == xj[0]))
    skip = set()
    if not all(dom):
        skip.add("MSF")
    if not dom[j]:
        skip.add("MSF.col")
    ref = {
        "MAC": np.array([[mac_ref(X0[:, i], A0[:, m]) for m in range(k)] for i in range(k)]),
        "MCF": np.array([mcf_ref(X0[:, i]) for i in range(k)]),
        "MSF": cs.copy(),
        "MAC.col": np.array([[mac_ref(xj, A0[:, m]) for m in range(k)]]),
        "MCF.col": np.array([mcf_ref(xj)]),
        "MSF.col": np.array([cs[j]]),
    }
    for ind in ("MPC", "MPD"):
        if (ind == "MPC" and const_j) or (ind == "MPD" and iso_j):
            continue
        t.evaluations += 1
        try:
            r = real_value(getattr(G, ind)(xj.copy()))
        except Exception as e:
            t.violation(f"{ind}:raises-{type(e).__name__}:seq-sets", f"gen.{ind} raised {type(e).__name__}: {e} on {xj.tolist()[:6]}", case)
            continue
        if r is not None:
            ref[ind + ".col"] = np.array([r])
    tol = {"MAC": TOL_INV, "MPC": TOL_INV, "MCF": TOL_INV, "MPD": TOL_MPD, "MSF": 1e-12}

    def call(op, X, A, W):
        if op == "MAC":
            return G.MAC(X, A)
        if op == "MCF":
            return G.MCF(X)
        if op == "MSF":
            return G.MSF(X, W)
        ind = op[:3]
        x = X[:, j]                      # a column view of the caller's set
        if ind == "MAC":
            return G.MAC(x, A)
        if ind == "MSF":
            return G.MSF(x, W[:, j])
        return getattr(G, ind)(x)

    kk = 0
    for op1 in SEQ_SET_OPS:
        for op2 in SEQ_SET_OPS:
            kk += 1
            if op1 in skip or op2 in skip:
                t.skipped_by_guard += 1
                t.outcomes["seq-sets:skipped(MSF outside its domain)"] += 1
                continue
            X, A, W = lay_out(X0, layout), lay_out(A0, layout), lay_out(W0, layout)
            t.transitions += 1
            t.evaluations += 2
            if sid is not None:
                t.nontrivial.add(sid + kk)
            c = dict(case)
            c["sequence"] = [op1, op2]
            try:
                call(op1, X, A, W)
                got = call(op2, X, A, W)
            except Exception as e:
                t.violation(f"{op2[:3]}:raises-{type(e).__name__}:seq-sets:{layout}", f"gen.{op2[:3]} raised {type(e).__name__}: {e} in the sequence {op1}>{op2}", c)
                continue
            want = ref.get(op2)
            if want is None:
                t.not_judged += 1
                continue
            t.validated += 1
            got = np.atleast_1d(np.asarray(got))
            if op2 == "MAC.col" and got.ndim == 1:
                got = got[None, :]
            ind = op2[:3]
            if np.iscomplexobj(got) and float(np.max(np.abs(got.imag))) <= SLACK:
                got = got.real
            ok = got.shape == want.shape and not np.iscomplexobj(got) and bool(np.all(np.isfinite(got)))
            if ok:
                e = float(np.max(np.abs(got - want) / (np.abs(want) if ind == "MSF" else 1.0)))
                ok = e <= tol[ind]
            if not ok:
                t.violation(f"{ind}:value-after-{op1}:seq-sets:{op2}:{layout}",
                            f"{op2} = {got.tolist()} as the second call of the sequence {op1}>{op2} on the same array objects ({layout} set X of shape "
                            f"{X0.shape}, A another set, W = X * {cs.tolist()} built before the first call; .col = column view X[:, {j}]); the pristine "
                            f"values give {want.tolist()}; X[:, {j}] is now {np.asarray(X)[:, j].tolist()[:4]}, was {xj.tolist()[:4]}", c)
                t.outcomes["BAD:seq-sets"] += 1
            else:
                t.err(f"sequence:sets:{ind}", e)
                t.outcomes[f"seq-sets:{layout}:ok"] += 1
                t.outcomes[f"seq-sets:first={op1}:ok"] += 1
                t.outcomes[f"seq-sets:second={op2}:ok"] += 1
    t.outcomes["seq-sets:judged"] += 1


def work_seqsets(item):
    start, chunk, off = item
    t = Tally()
    for i, (kind, spec, lay) in enumerate(chunk):
        judge_seqsets(t, _CFG["seed"], kind, spec, lay, sid=off + (start + i) * 64)
        if (start + i) % 41 == 0:
            t.sample({"route": "seq-sets", "kind": kind, "spec": spec, "layout": lay, "operations": SEQ_SET_OPS, "ordered pairs": len(SEQ_SET_OPS) ** 2})
    G.flush()
    return t


def dtype_space(thorough):
    out = []
    for n in ((2, 3, 4) if thorough else (2, 3)):
        for v in itertools.product([-2, -1, 0, 1, 2], repeat=n):
            if any(v):
                out.append(("dt-int", list(v)))
    for n in DT_TABLE_N:
        for var in DT_TABLE_VARIANTS:
            out.append(("dt-table", [n, var]))
    for n in ((2, 3) if thorough else (2,)):
        for v in itertools.product(range(len(GAUSS)), repeat=n):
            if any(v):
                out.append(("dt-gauss", [GAUSS[i] for i in v]))
    for n in DT_PAY_N:
        out.append(("dt-pay", [n]))
    return out


def work_dtype(item):
    kind = item[0]
    t = Tally()
    if kind == "vec":
        _, start, chunk, off = item
        for k, (fam, spec) in enumerate(chunk):
            judge_dtvector(t, _CFG["seed"], fam, spec, did=off + (start + k) * 1024)
            if (start + k) % 61 == 0:
                t.sample({"route": "dtype-vector", "fam": fam, "spec": spec, "dtypes": admissible(build_dt(_CFG["seed"], fam, spec))})
    elif kind == "sets":
        _, ix, nsets, off = item
        judge_dtsets(t, ix, range(nsets), off + ix * nsets * 36)
        if ix % 7 == 0:
            t.sample({"route": "dtype-sets", "ix": ix, "A sets": nsets, "X": [DT_POOL[ix // len(DT_POOL)], DT_POOL[ix % len(DT_POOL)]]})
    else:
        _, n, off = item
        judge_dttable(t, _CFG["seed"], n, off)
    G.flush()
    return t


# ---------------------------------------------------------------------------------------------
# exploration

_CFG = {}


def vector_space(thorough):
    out = []
    for n in (2, 3, 4):
        for v in itertools.product([-2, -1, 0, 1, 2], repeat=n):
            if any(v):
                out.append(("int-real", list(v)))
    if thorough:
        small = {-2, -1, 0, 1, 2}
        for v in itertools.product([-3, -2, -1, 0, 1, 2, 3], repeat=4):
            if any(v) and not set(v) <= small:
                out.append(("int-real", list(v)))
    for n in ((2, 3, 4) if thorough else (2, 3)):
        for v in itertools.product(range(len(GAUSS)), repeat=n):
            if any(v):
                out.append(("gauss", [GAUSS[i] for i in v]))
    for n in PAY_N:
        for var in PAY_REAL_VARIANTS:
            out.append(("pay-real", [n, var]))
        for var in PAY_CPLX_VARIANTS:
            out.append(("pay-cplx", [n, var]))
    for n in ((3, 4) if thorough else (3,)):
        for v in itertools.product([-2, -1, 0, 1, 2], repeat=n):
            if any(v) and len(set(v)) > 1:
                out.append(("near", ["int", list(v)]))
    for n in PAY_N:
        out.append(("near", ["pay", n]))
    out += uniform_space(thorough)
    return out


def work_vectors(item):
    start, chunk = item
    t = Tally()
    for k, (fam, spec) in enumerate(chunk):
        judge_vector(t, _CFG["seed"], fam, spec, vid=start + k)
        if (start + k) % 211 == 0:
            phi0, base, info = build(_CFG["seed"], fam, spec)
            t.sample({"fam": fam, "spec": spec, "class": classify(phi0, base, info)[0], "scales": len(SCALES), "variants": 1 + 2 * len(SCALES)})
    G.flush()
    return t


def work_macsets(item):
    ai, n, ix_list, nsets, off = item
    t = Tally()
    for ix in ix_list:
        judge_macsets(t, _CFG["alphabets"][ai], n, ix, range(nsets), off + ix * nsets)
        if ix % 997 == 0:
            t.sample({"route": "macsets", "alphabet": [str(a) for a in _CFG["alphabets"][ai]], "n": n, "ix": ix, "A sets": nsets})
    G.flush()
    return t


def explore(ctx):
    vecs = vector_space(ctx.thorough)
    _CFG.update(seed=ctx.seed)
    if ctx.thorough:
        alphabets = [(GAUSS, 2), ([0, 1, 1j], 3)]
    else:
        alphabets = [(GAUSS_Q, 2)]
    _CFG["alphabets"] = [a for a, _ in alphabets]
    CH = 24
    items = [(s, vecs[s:s + CH]) for s in range(0, len(vecs), CH)]
    mitems = []
    npairs = 0
    off = len(vecs) << 6
    for ai, (alpha, n) in enumerate(alphabets):
        nsets = len(gauss_vectors(alpha, n)) ** 2
        per = max(1, 4000 // nsets)
        for ix0 in range(0, nsets, per):
            mitems.append((ai, n, list(range(ix0, min(nsets, ix0 + per))), nsets, off))
        off += nsets * nsets
        npairs += nsets * nsets
    fam_counts = {}
    for fam, _ in vecs:
        fam_counts[fam] = fam_counts.get(fam, 0) + 1
    ctx.bounds = {
        "vectors": fam_counts,
        "int-real": "all non-zero vectors over {-2..2}^n, n = 2,3,4" + ("; plus all of {-3..3}^4" if ctx.thorough else ""),
        "gauss": f"all non-zero vectors over {[str(g) for g in GAUSS]}^n, n = " + ("2,3,4" if ctx.thorough else "2,3"),
        "payload vectors": {"n": PAY_N, "real variants": PAY_REAL_VARIANTS, "complex variants": PAY_CPLX_VARIANTS},
        "near-collinear": "v + 1e-9 (w1 + i w2), v over the non-constant vectors of {-2..2}^n (n = " + ("3,4" if ctx.thorough else "3") + ") and payload v with n = 8,16,64",
        "nearly uniform": {"shape": "m (1 + s u), u payload with 0.2 <= |u_i| <= 1", "relative spread s": UNI_SPREADS, "mean m": UNI_MEANS,
                           "n": UNI_N_THOROUGH if ctx.thorough else UNI_N,
                           "kinds": {"collinear": "the real vector itself, times every scale of the catalogue (judged against MPC = 1, MPD = 0, MCF = 0, MAC = 1)",
                                     "non-collinear-part": f"plus {UNI_NONCOL:g} s m (w1 + i w2), s >= {UNI_NEAR_MIN_SPREAD:g} (bounds, finiteness, invariance)"}},
        "scales": {"moduli": MODS, "phases": PHASES, "forms": ["raw", "normalised to a unit largest component"]},
        "MSF factors c": REAL_C,
        "MAC set pairs": {"alphabets": [{"symbols": [str(x) for x in a], "n": n} for a, n in alphabets], "ordered pairs of 2-shape sets": npairs,
                          "forms": ["MAC(X,A)", "MAC(A,X)", "1-D vs set", "2 x 3"]},
        "payload": f"mc.payload keyed by VERIF_SEED={ctx.seed}",
    }
    # dtype axis (same code path in both tiers; the thorough tier only enlarges the vector alphabets)
    dvecs = dtype_space(ctx.thorough)
    DCH = 8
    ditems = [("vec", s, dvecs[s:s + DCH], off) for s in range(0, len(dvecs), DCH)]
    off += len(dvecs) * 1024
    ndsets = len(DT_POOL) ** 2
    ditems += [("sets", ix, ndsets, off) for ix in range(ndsets)]
    off += ndsets * ndsets * 36
    ditems += [("table", n, off + i * 64) for i, n in enumerate(DT_TABLE_N)]
    dfam = {}
    for fam, _ in dvecs:
        dfam[fam] = dfam.get(fam, 0) + 1
    ctx.bounds["dtype axis"] = {
        "dtypes": DTYPES,
        "rule": "every dtype that can hold the values of the shape exactly (integer-valued real shapes: all six; complex shapes: the two "
                "complex ones), every ordered pair of dtypes for the two arguments of MAC and MSF; reference from the same values in complex128",
        "vectors": dfam,
        "dt-int": "all non-zero vectors over {-2..2}^n, n = " + ("2,3,4" if ctx.thorough else "2,3"),
        "dt-table": {"n": DT_TABLE_N, "variants": DT_TABLE_VARIANTS, "values": "round(9 * payload), integers with 2 <= |v| <= 9"},
        "dt-gauss": f"all non-zero vectors over {[str(g) for g in GAUSS]}^n, n = " + ("2,3" if ctx.thorough else "2"),
        "dt-pay": {"n": DT_PAY_N, "values": "complex payload (non-integer: complex64 rounds)"},
        "per vector": ["MPD/MPC/MCF of the shape in every dtype and of (2-1j)*shape in both complex dtypes",
                       "MAC with itself, with (2-1j)*itself, with another shape, (complex shapes) with a real integer vector; both orders",
                       f"MSF(v, c v) = c and MSF(c v, v) = 1/c for c in {MSF_INT_C + [MSF_HALF_C]}"],
        "MAC set pairs": {"pool of 3-component shapes": [[str(x) for x in v] for v in DT_POOL], "2-shape sets": ndsets,
                          "ordered pairs of sets": ndsets * ndsets, "forms": ["MAC(X,A)", "MAC(A,X)", "1-D vs set", "set vs 1-D"]},
        "tables": {"n": DT_TABLE_N, "sets": "3 complex payload shapes (complex64/complex128) x 2 integer-valued real shapes (6 dtypes), both orders; "
                                            "integer table x integer table in all 36 dtype pairs"},
        "single-precision tolerances": {"MAC/MPC/MCF": TOL32_INV, "MPD": TOL32_MPD, "MSF relative": TOL32_MSF},
    }
    # purity of every call + sequences of calls on the same array objects (same code path in both tiers)
    off += len(DT_TABLE_N) * 64
    _CFG["seq_off"] = off
    off += len(vecs) * 512
    ssets = seqsets_space()
    SCH = 6
    sitems = [(s0, ssets[s0:s0 + SCH], off) for s0 in range(0, len(ssets), SCH)]
    ctx.bounds["argument purity"] = ("every call of gen.MAC/MPC/MPD/MCF/MSF made by this check (all routes): each array argument, and the array it is a "
                                     "view of, compared before/after the call: bytes, dtype, shape, strides")
    ctx.bounds["call sequences"] = {
        "objects": "v (shape), a (another shape), w = c v, built before the first call and handed to every call of the sequence as the same objects",
        "indicators": INDS,
        "vectors": "every vector of the vector route as it is, and (all but the real integer vectors with >= 4 components) scaled by 1e-3 e^{0.7i} and "
                   "normalised to a unit component: all 25 ordered pairs; payload vectors (raw form) also all 125 ordered triples; the last call is judged",
        "c": f"rotates through {REAL_C}",
        "dtype axis": "dt-table and dt-pay shapes in every admissible dtype, all 25 ordered pairs, c = 3",
        "sets": {"sets": f"all {len(DT_POOL) ** 2} ordered pairs of the pool shapes (3 x 2) and complex payload sets (n, k) in {SEQ_PAY_NK}",
                 "memory layouts": SEQ_LAYOUTS, "operations": SEQ_SET_OPS, "ordered pairs": len(SEQ_SET_OPS) ** 2, "cases": len(ssets)},
    }
    ctx.pmap(work_vectors, items, chunksize=1)
    ctx.pmap(work_macsets, mitems, chunksize=1)
    ctx.pmap(work_dtype, ditems, chunksize=1)
    ctx.pmap(work_seqsets, sitems, chunksize=1)
    ctx.require("class:collinear", "class:collinear+zero", "class:constant-base", "class:general", "class:general+zero",
                "class:near-collinear", "class:isotropic(MPD invariance not judged)", "MSF:ok:c<0", "MSF:ok:c>0",
                "MSF:outside-domain", "MAC:same-array-rescaled-in-place:ok", "macsets:ok", "macsets:asymmetric-matrix(orientation observable)", "macsets:two-views-of-one-array:asymmetric-matrix-judged", "vector-judged")
    ctx.require("class:collinear+nearly-uniform", "class:near-collinear+nearly-uniform", "uniform:MPC-judged-against-1", "uniform:MPC-judged-for-invariance",
                *[f"uniform:{kind}:spread={s:g}:judged" for kind in UNI_KINDS for s in UNI_SPREADS if kind == "collinear" or s >= UNI_NEAR_MIN_SPREAD],
                *[f"uniform:n={n}:judged" for n in (UNI_N_THOROUGH if ctx.thorough else UNI_N)], *[f"uniform:mean={m:g}:judged" for m in UNI_MEANS])
    ctx.require("dtype:vector-judged", "dtype:class:collinear", "dtype:class:collinear+zero", "dtype:class:constant-base", "dtype:class:general",
                "dtype:MSF:outside-domain",
                *[f"dtype:{ind}:{cls}:ok" for ind in ("MAC", "MSF", "MCF", "MPC", "MPD") for cls in ("int-typed", "single", "double")],
                *[f"dtype:{r}:{cls}:ok" for r in ("sets", "table") for cls in ("int-typed", "single", "double")])
    ctx.require(*[f"purity:{ind}:arguments-unchanged" for ind in INDS],
                *[f"seq:{a}>{b}:ok" for a in INDS for b in INDS],
                *[f"seq:length-3:last={ind}:ok" for ind in INDS],
                "seq:skipped(MSF outside its domain)",
                *[f"dtype:seq:{cls}:length-2:last={ind}:ok" for cls in ("int-typed", "single", "double") for ind in INDS],
                "seq-sets:judged", *[f"seq-sets:{lay}:ok" for lay in SEQ_LAYOUTS],
                *[f"seq-sets:first={op}:ok" for op in SEQ_SET_OPS], *[f"seq-sets:second={op}:ok" for op in SEQ_SET_OPS])


def _cplx(x):
    if isinstance(x, dict):
        return complex(x["re"], x["im"])
    return x


def replay(case):
    t = Tally()
    if case.get("route") == "vector":
        fam, spec = case["fam"], case["spec"]
        if fam == "gauss":
            spec = [_cplx(x) for x in spec]
        judge_vector(t, case["seed"], fam, spec)
    elif case.get("route") == "macsets":
        alpha = [complex(s) for s in case["alphabet"]]
        judge_macsets(t, alpha, case["n"], case["ix"], [case["ia"]])
    elif case.get("route") == "dtype-vector":
        judge_dtvector(t, case["seed"], case["fam"], case["spec"])
    elif case.get("route") == "dtype-sets":
        judge_dtsets(t, case["ix"], [case["ia"]])
    elif case.get("route") == "dtype-table":
        judge_dttable(t, case["seed"], case["n"])
    elif case.get("route") == "seq-sets":
        judge_seqsets(t, case["seed"], case["kind"], case["spec"], case["layout"])
    else:
        raise ValueError("unknown route")
    G.flush()
    return t
