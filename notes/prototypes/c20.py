import quiet
import numpy as np, itertools, collections
import matplotlib; matplotlib.use('Agg'); import matplotlib.pyplot as plt
from matplotlib.collections import PathCollection
from pyoma2.functions import plot, ssi
stats=collections.Counter()
R,C=2,3
def artists(ax):
    lines=[l for l in ax.get_lines()]
    out={'green':[], 'red':[]}
    for l in lines:
        xy=l.get_xydata(); 
        if l.get_marker()=='o' and l.get_linestyle()=='None': out['green']+= [tuple(p) for p in xy if not np.isnan(p).any()]
    for c in ax.collections:
        if isinstance(c,PathCollection):
            off=np.asarray(c.get_offsets()); out['red']+=[tuple(p) for p in off if not np.ma.is_masked(p) and not np.isnan(np.asarray(p,float)).any()]
    return out
n=0
for cells in itertools.product('NSU',repeat=R*C):
    Fn=np.full((R,C),np.nan); Lab=np.zeros((R,C),int); Xi=np.full((R,C),np.nan)
    for k,s in enumerate(cells):
        r,c=divmod(k,C)
        if s!='N': Fn[r,c]=5+3*r+0.1*c; Xi[r,c]=0.01*(k+1); Lab[r,c]=int(s=='S')
    if n%7==0:
      for hide in (True,False):
        fig,ax=plot.stab_plot(Fn,Lab,1,C-1,hide_poles=hide,freqlim=(0,20))
        a=artists(ax); plt.close('all')
        expS=sorted((Fn[r,c],float(c)) for r in range(R) for c in range(C) if Lab[r,c]==1 and not np.isnan(Fn[r,c]))
        expU=sorted((Fn[r,c],float(c)) for r in range(R) for c in range(C) if Lab[r,c]==0 and not np.isnan(Fn[r,c]))
        ok=sorted(a['green'])==expS and (hide and a['red']==[] or (not hide and sorted(a['red'])==expU))
        stats['stab ok' if ok else 'stab BAD']+=1
        if not ok and stats['stab BAD']<3: print(cells,hide,a,expS,expU)
        # behavioural y: mpe at order y returns that pole
        for (x,y) in a['green']:
            Phi=np.ones((R,C,2),complex)
            r_=ssi.SSI_mpe([x],Fn,Xi,Phi,int(y),rtol=1e-6)
            stats['mpe binds' if len(r_[0])==1 and r_[0][0]==x else 'mpe BAD']+=1
        fig,ax=plot.cluster_plot(Fn,Xi,Lab,hide_poles=hide); a=artists(ax); plt.close('all')
        expS=sorted((Fn[r,c],Xi[r,c]) for r in range(R) for c in range(C) if Lab[r,c]==1 and not np.isnan(Fn[r,c]))
        expU=sorted((Fn[r,c],Xi[r,c]) for r in range(R) for c in range(C) if Lab[r,c]==0 and not np.isnan(Fn[r,c]))
        ok=sorted(a['green'])==expS and (hide and a['red']==[] or (not hide and sorted(a['red'])==expU))
        stats['cluster ok' if ok else 'cluster BAD']+=1
    n+=1
print(stats)
# CMIF
S=np.zeros((3,3,9)); rng=np.random.default_rng(0)
for k in range(9): S[:,:,k]=np.diag(np.sort(rng.uniform(0.1,5,3))[::-1])
f=np.arange(9)*0.5
fig,ax=plot.CMIF_plot(S,f); ls=ax.get_lines(); print(len(ls),[np.allclose(l.get_ydata(),10*np.log10(S[k,k]/S[0,0].max())) and np.allclose(l.get_xdata(),f) for k,l in enumerate(ls)])
