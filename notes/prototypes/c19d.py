import quiet
import numpy as np, pandas as pd, copy
from pyoma2.functions import gen
names=['a','b']
coord=pd.DataFrame([[0,0,0],[1,1,1]],index=names,columns=list('xyz')); dirs=pd.DataFrame([[1,0,0],[0,1,0]],index=names,columns=list('xyz'))
pts=pd.DataFrame([[0.,0,0],[1,0,0]],index=[1,2],columns=list('xyz')); mp=pd.DataFrame([['a',0,0],['b',0,0]],index=[1,2],columns=list('xyz'))
forms={'row table':pd.DataFrame([names],index=[1]),'list':list(names),'array':np.array(names)}
for k,v in forms.items():
    for geo,fd,fun in [('geo1',{'sensors names':v,'sensors coordinates':coord,'sensors directions':dirs},gen.check_on_geo1),('geo2',{'sensors names':v,'points coordinates':pts,'mapping':mp,'constraints':pd.DataFrame()},gen.check_on_geo2)]:
        try: r=fun(copy.deepcopy(fd)); print(geo,k,'ok',r[0])
        except Exception as e: print(geo,k,'->',type(e).__name__,str(e)[:60])
# multi
ms={'row table':pd.DataFrame([['r','a',np.nan],['b','r','c']],index=[1,2]),'list of lists':[['r','a'],['b','r','c']]}
coordm=pd.DataFrame(np.zeros((4,3)),index=['REF1','a','b','c'],columns=list('xyz'))
for k,v in ms.items():
    try: r=gen.check_on_geo1({'sensors names':v,'sensors coordinates':coordm,'sensors directions':coordm.copy()},ref_ind=[[0],[1]]); print('geo1 multi',k,'ok',r[0])
    except Exception as e: print('geo1 multi',k,'->',type(e).__name__,str(e)[:60])
