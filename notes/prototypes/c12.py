import quiet
import numpy as np, itertools
from pyoma2.functions import ssi
# impulse-basis determination of the bilinear map for cov_mm and cov_R
def spec_mm(l,r,br,Nd,a,s,b,t,refidx):
    # predicted H for Y=e_{a,s}, Yref = e_{b,t}: entry (i,a;j,b) = w if s - t == i+j+1 and within averaging window
    pass
l=2; ref=[1]; br=2; Nd=12
p=br;q=p+1;N=Nd-p-q
for method in ['cov_mm','cov_R']:
    lags={}
    weights={}
    for a in range(l):
      for s in range(Nd):
        for bi,b in enumerate(ref):
          for t in range(Nd):
            Y=np.zeros((l,Nd)); Y[a,s]=1.0
            Yr=np.zeros((len(ref),Nd)); Yr[bi,t]=1.0
            H,_=ssi.build_hank(Y,Yr,br,method)
            nz=np.argwhere(abs(H)>0)
            for (row,col) in nz:
                i,aa=divmod(row,l); j,bb=divmod(col,len(ref))
                assert aa==a and bb==bi,(method,row,col,a,bi)
                lags.setdefault((i,j),set()).add(s-t)
                weights.setdefault((i,j),set()).add(round(H[row,col],12))
    print(method,H.shape)
    for k in sorted(lags): print('  block',k,'lags',lags[k],'weights',weights[k])
