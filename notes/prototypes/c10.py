import quiet
import numpy as np, itertools
from pyoma2.functions import gen
a=np.array([1,0.5+0.2j,-0.3j]); b=np.array([0.2,1,0.9j])
def near(a,eps,w): 
    v=a+eps*w; return v
w=np.array([0.3,-1,0.5j])
# find shapes with 1-MAC = 0.01 and 0.5 roughly
def mac(x,y): return abs(np.vdot(x,y))**2/(np.vdot(x,x).real*np.vdot(y,y).real)
a01=a+0.12*w; 
cat={ 'b':(10.0,0.02,a),'f05':(10.05,0.02,a),'f3':(10.3,0.02,a),'x2':(10.0,0.0205,a),'x50':(10.0,0.03,a),
      'm01':(10.0,0.02,a01),'m5':(10.0,0.02,b),'far':(20.0,0.01,b),'fartwin':(20.02,0.01,b),'nan':None}
print('1-mac a01',1-mac(a,a01),'1-mac b',1-mac(a,b))
keys=list(cat)
def table(cols):
    R=len(cols[0]); C=len(cols)
    Fn=np.full((R,C),np.nan); Xi=np.full((R,C),np.nan); Phi=np.full((R,C,3),np.nan,complex)
    for c,col in enumerate(cols):
        for r,k in enumerate(col):
            if cat[k] is not None: Fn[r,c],Xi[r,c],Phi[r,c]=cat[k][0],cat[k][1],cat[k][2]
    return Fn,Xi,Phi
def ref_label(Fn,Xi,Phi,ordmin,ordmax,efn,exi,ephi):
    R,C=Fn.shape; Lab=np.zeros((R,C),int); amb=np.zeros((R,C),bool)
    for c in range(C):
        if c==0 or c<ordmin or c>ordmax: continue
        prev=[r for r in range(R) if not np.isnan(Fn[r,c-1])]
        for r in range(R):
            if np.isnan(Fn[r,c]) or not prev: continue
            d=[abs(Fn[p,c-1]-Fn[r,c]) for p in prev]; dm=min(d)
            cands=[p for p,dd in zip(prev,d) if dd==dm]
            verd=set()
            for p in cands:
                c1=abs(Fn[r,c]-Fn[p,c-1])/Fn[r,c]; c2=abs(Xi[r,c]-Xi[p,c-1])/Xi[r,c]; c3=1-mac(Phi[r,c],Phi[p,c-1])
                verd.add(int(c1<efn and c2<exi and c3<ephi))
            if len(verd)>1: amb[r,c]=True
            Lab[r,c]=verd.pop()
    return Lab,amb
bad=0;n=0
for prev in itertools.product(keys,repeat=3):
    for cur in keys:
        cols=[('nan',)*3, prev, (cur,'nan','nan')]
        Fn,Xi,Phi=table(cols)
        for ordmin in (0,1,2):
            L=gen.SC_apply(Fn,Xi,Phi,ordmin,2,1,0.01,0.05,0.03)
            Lr,amb=ref_label(Fn,Xi,Phi,ordmin,2,0.01,0.05,0.03)
            n+=1
            if not np.array_equal(L[~amb],Lr[~amb]):
                bad+=1
                if bad<5: print('MISMATCH',prev,cur,ordmin,L,Lr)
print(n,'cases',bad,'mismatches')
