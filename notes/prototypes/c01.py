import numpy as np, time, sys
from sysgen import *
from pyoma2.setup import SingleSetup
from pyoma2.algorithms import SSIcov, SSIdat
import logging; logging.disable(logging.CRITICAL)
rng=np.random.default_rng(int(sys.argv[1]) if len(sys.argv)>1 else 0)
worst={}
for trial in range(40):
    m=int(rng.integers(1,7)); l=int(rng.integers(2,9)); fs=float(rng.choice([10.,100.,1000.]))
    cm=bool(rng.integers(0,2))
    fn,xi,lam,Phi=make_system(m,l,rng,cm,fs=fs)
    N=int(rng.choice([600,1000,2000]))
    Y=free_decay(lam,Phi,N,fs,rng)
    nref=int(rng.integers(1,l+1)); ref=sorted(rng.choice(l,nref,replace=False).tolist())
    br=int(np.ceil(2*m/nref))+1+int(rng.integers(0,6))
    for cls,meth in [(SSIcov,'cov_mm'),(SSIdat,'dat')]:
        ss=SingleSetup(Y,fs)
        hc=dict(conj=False,xi_max=1.0,mpc_lim=0.0,mpd_lim=10.0,cov_max=1e9)
        a=cls(name='a',method=meth,br=br,ordmax=2*m,ref_ind=ref,hc=hc)
        ss.add_algorithms(a)
        t=time.time()
        try:
            ss.run_by_name('a')
        except Exception as e:
            print('EXC',m,l,nref,br,N,meth,repr(e)); continue
        r=a.result
        F=r.Fn_poles[:,2*m]; X=r.Xi_poles[:,2*m]; P=r.Phi_poles[:,2*m,:]
        ef=ex=em=0
        for j in range(m):
            i=np.nanargmin(abs(F-fn[j]))
            ef=max(ef,abs(F[i]-fn[j])/fn[j]); ex=max(ex,abs(X[i]-xi[j])/xi[j])
            # phi conj ambiguity: pole could be conj -> phi conj
            em=max(em,1-max(mac(P[i],Phi[:,j]),mac(P[i],Phi[:,j].conj())))
        key=meth
        w=worst.setdefault(key,[0,0,0]); w[0]=max(w[0],ef);w[1]=max(w[1],ex);w[2]=max(w[2],em)
        if max(ef,ex,em)>1e-6: print('BAD',meth,m,l,nref,br,N,fs,cm,ef,ex,em, 'minxi',xi.min())
print(worst)
