import numpy as np, warnings
warnings.simplefilter('ignore')
from pyoma2.functions.gen import MAC,MPC,MPD,MCF,MSF
rng=np.random.default_rng(1)
bad={'MPD':0,'MPC':0,'MCF':0,'MAC':0}
N=0
for n in [2,3,4,8,16,64]:
  for t in range(200):
    v=rng.standard_normal(n)
    if t%3==0: v[rng.integers(n)]=0.0
    if t%5==0: v=np.round(v*2)  # integer-ish, zeros likely
    if not v.any(): continue
    c=np.exp(1j*rng.uniform(0,2*np.pi))*10**rng.uniform(-6,6)
    phi=c*v
    if t%2==0: phi=phi/phi[np.argmax(abs(phi))]
    N+=1
    d=MPD(phi); p=MPC(phi); f=MCF(phi)[0]; a=MAC(phi,v.astype(complex))
    if not np.isfinite(d) or d>1e-6: bad['MPD']+=1; 
    if not np.isfinite(p) or abs(p-1)>1e-6: bad['MPC']+=1
    if not np.isfinite(f) or abs(f)>1e-6: bad['MCF']+=1
    if not np.isfinite(a) or abs(a-1)>1e-9: bad['MAC']+=1
print(N,bad)
# examples
for phi in [np.array([1,2,3.])*(1+0j), np.array([1,0,3.])*(0.3+0.4j), np.array([1,2.])*(1j), np.array([1.,2,3])*np.exp(0.7j)]:
    print(phi, MPD(phi), MPC(phi), MCF(phi))
# bounds on random complex
mx=0
for t in range(2000):
    n=rng.integers(2,10); phi=rng.standard_normal(n)+1j*rng.standard_normal(n)
    d=MPD(phi); p=MPC(phi); f=MCF(phi)[0]
    assert 0<=d<=np.pi/2+1e-12 and -1e-12<=p<=1+1e-12 and -1e-12<=f<=1+1e-12,(phi,d,p,f)
print('bounds ok')
print(MAC(rng.standard_normal((4,3)),rng.standard_normal((4,2))).shape)
