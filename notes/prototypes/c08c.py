import quiet
import numpy as np
from pyoma2.functions import plscf
fs=100.; dt=1/fs; nx=512; Nf=nx//2+1
fn=np.array([9.0,21.0]); xi=np.array([0.02,0.01]); wn=2*np.pi*fn
lam=-xi*wn+1j*wn*np.sqrt(1-xi**2)
tau=-(nx-1)/np.log(0.01)
zs=np.exp(lam*dt); zw=zs*np.exp(-1/tau)            # windowed poles
freq=np.linspace(0,fs/2,Nf); Om=np.exp(1j*2*np.pi*freq*dt)
rng=np.random.default_rng(0); l=2
phi=rng.standard_normal((l,2))
Sy=np.zeros((l,l,Nf),complex)
for j in range(2):
    for z in (zw[j],np.conj(zw[j])):
        Sy+= np.einsum('i,k,f->ikf',phi[:,j],phi[:,j],Om/(Om-z))
Ad,Bn=plscf.pLSCF(Sy,dt,2,sgn_basf=+1)
Fn,Xi,Ph,L=plscf.pLSCF_poles(Ad,Bn,dt,'cor',nx)
for o in (1,):
    F=Fn[:,o];X=Xi[:,o]
    print('order',o+1,[(round(F[np.nanargmin(abs(F-f))],4),round(X[np.nanargmin(abs(F-f))],5)) for f in fn],'true',list(zip(fn,xi)))
