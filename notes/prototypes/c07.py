import quiet
import numpy as np, sys, warnings
warnings.simplefilter('ignore')
from pyoma2.functions import fdd
rng=np.random.default_rng(0)
def mac(a,b): return abs(np.vdot(a,b))**2/(np.vdot(a,a).real*np.vdot(b,b).real)
res={'EFDD':[], 'FSDD':[]}
for trial in range(60):
    nxseg=int(rng.choice([1024,2048,4096,8192])); fs=float(rng.choice([10,100,1000.]))
    Nf=nxseg//2+1; freq=np.arange(Nf)*fs/nxseg; dt=1/fs
    fn=rng.uniform(0.04,0.25)*fs; xi=rng.uniform(0.02,0.05)
    bw=2*xi*fn; df=fs/nxseg
    if bw/df<4: continue
    # periods in half record: half record = nxseg/2 samples -> T=nxseg/2*dt ; periods = fn*T
    if fn*nxseg/2*dt<30: continue
    l=int(rng.integers(2,7)); phi=rng.standard_normal(l); phi/=phi[np.argmax(abs(phi))]
    w=2*np.pi*freq; wn=2*np.pi*fn
    S=1/((wn**2-w**2)**2+(2*xi*wn*w)**2)
    S=S/S.max()
    Sy=np.einsum('i,j,k->ijk',phi,phi,S)+1e-9*np.eye(l)[:,:,None]
    Sy=Sy.astype(complex)
    DF2=max(4*bw, 4*df)*1.0
    for meth in ['EFDD','FSDD']:
        try:
            Fn,Xi,Phi,_=fdd.EFDD_mpe(Sy,freq,dt,[fn],'per',method=meth,DF1=max(2*df,0.1*bw),DF2=DF2)
            res[meth].append((float(abs(Fn.ravel()[0]-fn)/fn), float(abs(Xi.ravel()[0]-xi)/xi), 1-mac(Phi[:,0],phi), nxseg,fs,fn/fs,xi,bw/df))
        except Exception as e:
            print('EXC',meth,nxseg,fs,fn,xi,repr(e)[:100])
for k,v in res.items():
    v=np.array(v); print(k,len(v),'max fn err',v[:,0].max(),'max xi err',v[:,1].max(),'mac',v[:,2].max())
    i=np.argmax(v[:,1]); print('  worst',v[i])
