import quiet
import numpy as np, time, collections, itertools, sys
import matplotlib; matplotlib.use('Agg')
from matplotlib.backends.backend_agg import FigureCanvasAgg
from matplotlib.backend_bases import MouseEvent, KeyEvent
import pyoma2.support.sel_from_plot as sfp
from pyoma2.algorithms import SSIcov, pLSCF, FDD
from pyoma2.algorithms.data.result import SSIResult, pLSCFResult, FDDResult
class FakeTk:
    def __init__(self,*a,**k): pass
    def title(self,*a): pass
    def config(self,**k): pass
    def protocol(self,*a): pass
    def mainloop(self): FakeTk.script(FakeTk.obj)
    def quit(self): pass
    def destroy(self): pass
class FakeMenu:
    def __init__(self,*a,**k): pass
    def add_command(self,**k): pass
    def add_cascade(self,**k): pass
class W:
    def pack(self,**k): pass
class FakeCanvas(FigureCanvasAgg):
    def __init__(self,fig,root): super().__init__(fig)
    def get_tk_widget(self): return W()
    def draw_idle(self,*a,**k): pass
sfp.tk.Tk=FakeTk; sfp.tk.Menu=FakeMenu; sfp.FigureCanvasTkAgg=FakeCanvas; sfp.NavigationToolbar2Tk=lambda c,r: None
orig=sfp.SelFromPlot._initialize_gui
def wrapped(self): orig(self); FakeTk.obj=self
sfp.SelFromPlot._initialize_gui=wrapped
def fire(o,ev):
    c=o.fig.canvas
    if ev[0]=='press': c.callbacks.process('key_press_event',KeyEvent('key_press_event',c,'shift'))
    elif ev[0]=='release': c.callbacks.process('key_release_event',KeyEvent('key_release_event',c,'shift'))
    else:
        e=MouseEvent('button_press_event',c,0,0,button=ev[1]); e.xdata=ev[2]; e.ydata=ev[3]; e.inaxes=o.ax2
        c.callbacks.process('button_press_event',e)
Fn=np.array([[np.nan,5.0,5.1,5.05],[np.nan,np.nan,9.0,9.1],[np.nan,2.0,np.nan,2.05]])
Xi=np.where(np.isnan(Fn),np.nan,0.01*(1+np.arange(12).reshape(3,4)))
Phi=np.where(np.isnan(Fn)[:,:,None],np.nan,(np.arange(24).reshape(3,4,2)+1.0)).astype(complex)
Lab=np.where(np.isnan(Fn),0,1)
XS=[2.1,5.02,9.04,9.3]; YS=[0.6,1.2,2.9]
EVENTS=[('press',),('release',)]+[('click',b,x,y) for b in (1,3,2) for x in XS for y in YS]
class Model:
    def __init__(s): s.shift=False; s.sel=[]
    def step(s,ev):
        """returns set of admissible next selections (as sorted tuples)"""
        if ev[0]=='press': s.shift=True; return [tuple(sorted(s.sel))]
        if ev[0]=='release': s.shift=False; return [tuple(sorted(s.sel))]
        if not s.shift: return [tuple(sorted(s.sel))]
        b,x,y=ev[1:]
        if b==1:
            o=int(np.argmin(abs(np.arange(Fn.shape[1])-y))); col=Fn[:,o]
            if np.all(np.isnan(col)): return None   # outside quantifier (no retained pole)
            r=int(np.nanargmin(abs(col-x))); s.sel=s.sel+[(float(col[r]),o)]; return [tuple(sorted(s.sel))]
        if not s.sel: return [()]
        if b==3:
            return [tuple(sorted(s.sel[:i]+s.sel[i+1:])) for i in range(len(s.sel))]
        if b==2:
            d=[abs(f-x) for f,_ in s.sel]; m=min(d); return [tuple(sorted(s.sel[:i]+s.sel[i+1:])) for i in range(len(s.sel)) if d[i]==m]
def run_history(hist):
    a=SSIcov(name='a',br=3,ordmax=3); a._set_data(np.zeros((10,2)),20.0)
    a.result=SSIResult(Fn_poles=Fn,Xi_poles=Xi,Phi_poles=Phi,Lab=Lab)
    out={}
    def script(o):
        m=Model()
        for i,ev in enumerate(hist):
            adm=m.step(ev)
            if adm is None: out['skip']=True; return
            try: fire(o,ev)
            except Exception as e: out['viol']=('handler raised',i,repr(e)); return
            got=tuple(sorted(zip([float(f) for f in o.sel_freq],[int(p) for p in o.pole_ind])))
            if got not in adm: out['viol']=('selection',i,got,adm); return
            m.sel=list(got)
            if bool(o.shift_is_held)!=m.shift: out['viol']=('shift',i); return
        out['final']=list(m.sel)
    FakeTk.script=script
    a.mpe_from_plot(freqlim=(0,10),rtol=1e-6) if True else None
    if 'final' in out and out['final']:
        exp=sorted(out['final'])
        got=sorted(zip([float(f) for f in np.atleast_1d(a.result.Fn)],[int(o) for o in np.atleast_1d(a.result.order_out)]))
        xi_exp=sorted(Xi[[r for r in range(3) if Fn[r,o]==f][0],o] for f,o in exp)
        if got!=exp or sorted(np.atleast_1d(a.result.Xi).tolist())!=xi_exp: out['viol']=('handover',got,exp)
    return out
st=collections.Counter(); first={}; t=time.time(); n=0
depth=int(sys.argv[1]) if len(sys.argv)>1 else 2
for d in range(1,depth+1):
    for hist in itertools.product(EVENTS,repeat=d):
        if d>1 and hist[0]!=('press',): continue   # quick prototype pruning: start with shift held
        try: o=run_history(hist)
        except Exception as e: o={'viol':('exception in mpe_from_plot',repr(e)[:80])}
        n+=1
        k='skip' if o.get('skip') else ('viol:'+o['viol'][0] if 'viol' in o else 'ok'); st[k]+=1
        if k.startswith('viol'): first.setdefault(k,(hist,o['viol']))
print(n,'histories',round(time.time()-t,1),'s',st)
for k,v in first.items(): print(k,v)
