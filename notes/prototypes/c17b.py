import quiet
import numpy as np, sys, inspect
from pyoma2.functions import ssi
src=inspect.getsource(ssi.SSI_fast).replace("Vom = V1_t[:, :ordmax]","Vom = V1_t[:ordmax, :].T")
ns={}; exec(src, ssi.__dict__, ns); ssi.SSI_fast=ns['SSI_fast']
exec(open('c17.py').read().split("import quiet",1)[1].replace("from pyoma2.functions import ssi",""))
