import quiet
import numpy as np
from pyoma2.functions import fdd, plscf
rng=np.random.default_rng(0); t=np.arange(600)/50.; Y=np.column_stack([np.sin(2*np.pi*5*t+p)*a+np.sin(2*np.pi*11*t+2*p)*b for p,a,b in [(0,1,.5),(1,.7,-1),(2,-.4,.8)]])+0.3*rng.standard_normal((600,3))
f,Sy=fdd.SD_est(Y.T,Y.T,1/50.,64,'per',0.5)
print(Sy.shape, np.isnan(Sy).any())
Ad,Bn=plscf.pLSCF(Sy,1/50.,3,-1)
print([a.shape for a in Ad],[b.shape for b in Bn], [np.isnan(a).any() for a in Ad])
A,C=plscf.rmfd2ac(Ad[2],Bn[2]); print(A.shape,C.shape); ev=np.linalg.eigvals(A); print(np.round(ev,3))
fn,xi,phi,lam=plscf.ac2mp_poly(A,C,1/50.,'per',64); print(fn,xi)
