import quiet
import numpy as np, itertools, collections
from pyoma2.functions.gen import merge_mode_shapes, flatten_sns_names
import hashlib
def payload(tag,i,lo=0.3,hi=2.0):
    h=hashlib.sha256(f"{tag}:{i}".encode()).digest(); u=int.from_bytes(h[:8],'big')/2**64; s=1 if h[8]&1 else -1
    return s*(lo+(hi-lo)*u)
st=collections.Counter(); ex={}
factors=[0.05,-0.05,0.5,-0.5,1,-1,3,-3,20,-20]
for cplx in (False,True):
  for nset in (2,3):
    for nref in (1,2):
      for nrov in itertools.product([0,1,2],repeat=nset):
        nmodes=2
        ntot=nref+sum(nrov)
        G=np.array([[payload('G',(r,k)) + (1j*payload('Gi',(r,k),0.1,1.0) if cplx else 0) for k in range(nmodes)] for r in range(ntot)])
        # placements: all injections of refs into each setup's channel list
        lay=[]
        for s in range(nset):
            nch=nref+nrov[s]; lay.append(list(itertools.permutations(range(nch),nref)))
        for places in itertools.product(*lay):
            for fi in range(0,len(factors),3):
                MS=[];names=[];off=nref
                for s in range(nset):
                    nch=nref+nrov[s]; rows=list(range(off,off+nrov[s])); off+=nrov[s]
                    A=np.zeros((nch,nmodes),complex); nm=[None]*nch
                    movpos=[p for p in range(nch) if p not in places[s]]
                    c=np.array([1.0,1.0]) if s==0 else np.array([factors[(fi+s)%10],factors[(fi+2*s+5)%10]])
                    if s==0: c=np.array([factors[(fi+7)%10],factors[(fi+4)%10]])
                    for j,p in enumerate(places[s]): A[p]=c*G[j]; nm[p]=f"ref{j}_{s}"
                    for r,p in zip(rows,movpos): A[p]=c*G[r]; nm[p]=f"s{r}"
                    MS.append(A); names.append(nm)
                    if s==0: c1=c
                out=merge_mode_shapes(MS,[list(p) for p in places])
                exp=G*c1
                err=np.max(abs(out-exp))/np.max(abs(exp))
                fl=flatten_sns_names(names,[list(p) for p in places])
                expn=[f"REF{j+1}" for j in range(nref)]+[f"s{r}" for r in range(nref,ntot)]
                k='ok' if err<1e-10 and fl==expn else 'BAD'
                st[k]+=1
                if k=='BAD': ex.setdefault(k,(cplx,nset,nref,nrov,places,err,fl))
print(st,ex)
