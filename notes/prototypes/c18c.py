import quiet
import numpy as np, itertools, collections
from pyoma2.functions.gen import MAC,MPC,MPD,MCF,MSF
st=collections.Counter(); ex={}
mods=[1e-6,1e-3,1,7.3,1e6]; phs=[0,0.7,np.pi/2,2.1,np.pi,-2.9]
scales=[m*np.exp(1j*p) for m in mods for p in phs]
def note(k,v):
    st[k]+=1; ex.setdefault(k,v)
# collinear real vectors
for n in (2,3,4):
    for v in itertools.product([-2,-1,0,1,2],repeat=n):
        v=np.array(v,float)
        if not v.any(): continue
        const = np.ptp(v)==0
        for c in scales:
            for norm in (False,True):
                phi=c*v
                if norm: phi=phi/phi[np.argmax(abs(phi))]
                d=MPD(phi); p=MPC(phi); f=MCF(phi)[0]; a=MAC(phi,v.astype(complex))
                if not (np.isfinite(d) and d<=1e-6): note('MPD bad'+(' const' if const else ''),(v,c,d))
                if not (np.isfinite(p) and abs(p-1)<=1e-7 and abs(np.imag(p))==0): note('MPC bad'+(' const' if const else ''),(v,c,p))
                if not (np.isfinite(f) and abs(f)<=1e-7): note('MCF bad',(v,c,f))
                if not (np.isfinite(a) and abs(a-1)<=1e-9): note('MAC bad',(v,c,a))
                st['collinear cases']+=1
        for c in [-20,-1,-0.05,0.05,0.5,1,3,20]:
            m=MSF(v,c*v)
            if not (m.shape==(1,) and abs(m[0]-c)<=1e-12*abs(c)): note('MSF bad',(v,c,m))
# complex alphabet: bounds + invariance
alpha=[0,1,-1,1j,1+1j,2-1j]
for n in (2,3):
    for v in itertools.product(alpha,repeat=n):
        v=np.array(v,complex)
        if not v.any(): continue
        d0,p0,f0=MPD(v),MPC(v),MCF(v)[0]
        degenerate = np.ptp(v.real)==0 and np.ptp(v.imag)==0
        if not (0<=d0<=np.pi/2+1e-12): note('MPD bound'+(' nan' if np.isnan(d0) else ''),(v,d0))
        if not (-1e-12<=np.real(p0)<=1+1e-12): note('MPC bound'+(' nan' if np.isnan(p0) else '')+(' degenerate' if degenerate else ''),(v,p0))
        if not (-1e-12<=f0<=1+1e-12): note('MCF bound',(v,f0))
        for c in scales[::3]:
            d,p,f=MPD(c*v),MPC(c*v),MCF(c*v)[0]
            if not abs(d-d0)<=1e-6: note('MPD inv',(v,c,d,d0))
            if not (abs(p-p0)<=1e-7 or (np.isnan(p) and np.isnan(p0))): note('MPC inv',(v,c,p,p0))
            if not abs(f-f0)<=1e-9: note('MCF inv',(v,c,f,f0))
            st['complex cases']+=1
for k,v in sorted(st.items()): print(k,v, ex.get(k,''))
