import quiet
import numpy as np, pandas as pd, copy, time
import matplotlib; matplotlib.use('Agg'); import matplotlib.pyplot as plt
from pyoma2.setup import SingleSetup
from pyoma2.algorithms.data.result import BaseResult
from mpl_toolkits.mplot3d.art3d import Line3D, Path3DCollection
names=['a','b','c']
perm=[2,0,1]
idx=[names[i] for i in perm]
coord=pd.DataFrame([[i,10*i,100*i] for i in perm],index=pd.Index(idx,name='label'),columns=['x','y','z'])
dirs=pd.DataFrame([[1,0,0],[0,0,-1],[0,1,0]],index=pd.Index(names,name='label'),columns=['x','y','z']).reindex(idx)
ss=SingleSetup(np.zeros((10,3)),10.)
ss.def_geo1(sens_names=names,sens_coord=coord,sens_dir=dirs)
Phi=np.array([[0.5,1.0],[-2.0,0.3],[1.5,-0.7]]); res=BaseResult(Fn=np.array([1.,2.]),Phi=Phi)
t=time.time(); fig,ax=ss.plot_mode_geo1(res,mode_nr=2,scaleF=3,view='3D'); print('geo1 plot s',time.time()-t)
lines=[l for l in ax.get_lines() if isinstance(l,Line3D)]
segs=[np.array(l.get_data_3d()).T for l in lines]
exp=[]
D=np.array([[1,0,0],[0,0,-1],[0,1,0]],float); X=np.array([[i,10*i,100*i] for i in range(3)],float)
for k in range(3): exp.append(np.array([X[k],X[k]+D[k]*Phi[k,1]*3]))
print('geo1 lines',len(segs),all(any(np.allclose(s,e) for s in segs) for e in exp))
plt.close('all')
# geo2
pts=pd.DataFrame([[0.,0,0],[1,0,0]],index=pd.Index([1,2],name='ptName'),columns=['x','y','z'])
mp=pd.DataFrame([['a','b',0],['c1',np.nan,'c']],index=pd.Index([1,2],name='ptName'),columns=['x','y','z'])
sg=pd.DataFrame([[1,-1,0],[-1,1,1]],index=pd.Index([1,2],name='ptName'),columns=['x','y','z'])
cs=pd.DataFrame([[1.0,-0.5,np.nan]],index=pd.Index(['c1'],name='cName'),columns=['a','b','c'])
ss.def_geo2(sens_names=names,pts_coord=pts,sens_map=mp,cstr=cs,sens_sign=sg)
for color in ('cmap','b'):
    t=time.time(); fig,ax=ss.plot_mode_geo2_mpl(res,mode_nr=1,scaleF=2,color=color); print('geo2 plot s',time.time()-t)
    offs=[]
    for c in ax.collections:
        if isinstance(c,Path3DCollection):
            x,y,z=c._offsets3d; offs+=list(zip(np.asarray(x,float),np.asarray(y,float),np.asarray(z,float)))
    phi=Phi[:,0]*2; val={'a':phi[0],'b':phi[1],'c':phi[2],'c1':phi[0]-0.5*phi[1]}
    M=np.array([[val['a'],val['b'],0],[val['c1'],0,val['c']]]); newp=pts.to_numpy()+M*sg.to_numpy()
    print(color,len(offs),all(any(np.allclose(o,p) for o in offs) for p in newp), newp.tolist())
    plt.close('all')
