import numpy as np
from pyoma2.functions.gen import merge_mode_shapes, MSF, flatten_sns_names
rng=np.random.default_rng(0)
G=rng.standard_normal((7,2))  # global: 2 ref + 2 rov(s1) + 3 rov(s2)
# setup1 sensors: ref at idx [1,3] in its channel list; rov at 0,2
s1=np.zeros((4,2)); s1[[1,3]]=G[[0,1]]; s1[[0,2]]=G[[2,3]]
s2=np.zeros((5,2)); s2[[4,0]]=G[[0,1]]; s2[[1,2,3]]=G[[4,5,6]]
for c in [1.0,-1.0,2.0,0.5]:
    out=merge_mode_shapes([s1, c*s2],[[1,3],[4,0]])
    print(c, np.round(out[:,0].real/G[:,0],4))
print(MSF(np.array([1.,2,3]),2*np.array([1.,2,3])))
print(flatten_sns_names([['a','r1','b','r2'],['r2','c','d','e','r1']],[[1,3],[4,0]]))
