import quiet
import numpy as np
from pyoma2.functions import ssi
rng=np.random.default_rng(0)
l=2; ref=[1]; br=3; Nd=2003; nb=10
Y=rng.standard_normal((l,Nd)); Yr=Y[ref]
H,T=ssi.build_hank(Y,Yr,br,'cov_mm',calc_unc=True,nb=nb)
p=br;q=p+1;N=Nd-p-q; Nb=N//nb
# independent block estimates
def lagged(Y,Yr):
    Yf=np.vstack([Y[:, q+1+i:N+q+i] for i in range(p+1)]); Yp=np.vstack([Yr[:, q-j:N+q-1-j] for j in range(q)]); return Yf,Yp
Yf,Yp=lagged(Y,Yr)
print('H check',np.allclose(H,Yf@Yp.T/N))
for order in 'CF':
    D=np.column_stack([ ((Yf[:,k*Nb:(k+1)*Nb]@Yp[:,k*Nb:(k+1)*Nb].T/Nb) - H).reshape(-1,order=order) for k in range(nb)])/np.sqrt(nb*(nb-1))
    print(order,'max|T-D|',abs(T-D).max(),'scale |D|',abs(D).max(),'|T|',abs(T).max(),'tol',2*abs(H).max()/N)
# what T actually is
D2=np.column_stack([ ((Yf[:,k*Nb:(k+1)*Nb]@Yp[:,k*Nb:(k+1)*Nb].T/Nb/N) - H).reshape(-1) for k in range(nb)])/np.sqrt(nb*(nb-1))
print('T == (Hk/N - H) rowmajor:',np.allclose(T,D2))
