import numpy as np, sys, itertools
from sysgen import *
from pyoma2.setup import MultiSetup_PreGER
from pyoma2.algorithms import SSIcov_MS, SSIdat_MS
import logging; logging.disable(logging.CRITICAL)
rng=np.random.default_rng(int(sys.argv[1]) if len(sys.argv)>1 else 0)
worst={}
for trial in range(30):
    m=int(rng.integers(1,6)); nset=int(rng.integers(2,5)); nref=int(rng.integers(1,4))
    nmov=[int(rng.integers(1,5)) for _ in range(nset)]
    L=nref+sum(nmov); fs=100.
    cm=bool(rng.integers(0,2))
    fn,xi,lam,Phi=make_system(m,L,rng,cm,fs=fs,ximin=0.005)
    N=1500
    datasets=[];ref_ind=[]
    off=nref
    for s in range(nset):
        glob=list(range(nref))+list(range(off,off+nmov[s])); off+=nmov[s]
        nch=len(glob)
        # positions of refs in channel list, arbitrary order
        pos=rng.permutation(nch)
        refpos=pos[:nref].tolist()
        movpos=sorted(pos[nref:].tolist())
        Yg=free_decay(lam,Phi[glob],N,fs,rng)*10**rng.uniform(-2,2)
        Y=np.zeros((N,nch))
        Y[:,refpos]=Yg[:,:nref]; Y[:,movpos]=Yg[:,nref:]
        datasets.append(Y); ref_ind.append(refpos)
    br=int(np.ceil(2*m/nref))+1+int(rng.integers(0,4))
    for cls,meth in [(SSIcov_MS,'cov_mm'),(SSIdat_MS,'dat')]:
        ms=MultiSetup_PreGER(fs=fs,ref_ind=ref_ind,datasets=datasets)
        hc=dict(conj=False,xi_max=1.0,mpc_lim=0.0,mpd_lim=10.0,cov_max=1e9)
        a=cls(name='a',method=meth,br=br,ordmax=2*m,hc=hc)
        ms.add_algorithms(a)
        try: ms.run_by_name('a')
        except Exception as e:
            print('EXC',m,nset,nref,nmov,br,meth,repr(e)); continue
        r=a.result
        F=r.Fn_poles[:,2*m]; X=r.Xi_poles[:,2*m]; P=r.Phi_poles[:,2*m,:]
        ef=ex=em=0
        for j in range(m):
            i=np.nanargmin(abs(F-fn[j]))
            ef=max(ef,abs(F[i]-fn[j])/fn[j]); ex=max(ex,abs(X[i]-xi[j])/xi[j])
            em=max(em,1-max(mac(P[i],Phi[:,j]),mac(P[i],Phi[:,j].conj())))
        w=worst.setdefault(meth,[0,0,0]); w[0]=max(w[0],ef);w[1]=max(w[1],ex);w[2]=max(w[2],em)
        if max(ef,ex,em)>1e-6: print('BAD',meth,m,nset,nref,nmov,br,cm,ef,ex,em)
print(worst)
