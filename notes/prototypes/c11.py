import quiet
import numpy as np, itertools, collections
from pyoma2.functions import ssi, plscf
vals=[10.0,10.3,11.0,20.0,19.2,15.0,np.nan]
def build(col):
    R=len(col); C=3
    Fn=np.full((R,C),np.nan); Xi=np.full((R,C),np.nan); Phi=np.full((R,C,2),np.nan,complex)
    for c in range(C):
        for r in range(R):
            v=col[r] if c==1 else (10.0 if r==0 else np.nan)
            if not np.isnan(v):
                Fn[r,c]=v; Xi[r,c]=0.001*(1+r+10*c); Phi[r,c]=[1.0,(r+1)+1j*(c+1)]
    return Fn,Xi,Phi
def expected(Fn,Xi,Phi,freqs,c,rtol):
    out=[]; amb=False
    for f in freqs:
        rows=[r for r in range(Fn.shape[0]) if not np.isnan(Fn[r,c])]
        d=[abs(Fn[r,c]-f) for r in rows]; dm=min(d); cands=[r for r,dd in zip(rows,d) if dd==dm]
        if len(cands)>1: amb=True
        r=cands[0]
        if abs(Fn[r,c]-f)<=rtol*f: out.append((Fn[r,c],Xi[r,c],tuple(Phi[r,c])))
    return out,amb
stats=collections.Counter(); shown=0
for fun,name in [(ssi.SSI_mpe,'ssi'),(plscf.pLSCF_mpe,'plscf')]:
  for col in itertools.product(vals,repeat=3):
    if all(np.isnan(v) for v in col): continue
    Fn,Xi,Phi=build(col)
    for freqs in ([10.0,20.0],[10.0],[20.0]):
      for rtol in (0.02,0.05):
        exp,amb=expected(Fn,Xi,Phi,freqs,1,rtol)
        if amb: stats[name,'amb']+=1; continue
        r=fun(freqs,Fn,Xi,Phi,1,rtol=rtol)
        F,X,P,oo=r[0],r[1],r[2],r[3]
        got=[(F[i],X[i],tuple(P[:,i])) for i in range(len(F))]
        ok = got==exp and oo==1
        stats[name,'ok' if ok else 'bad']+=1
        if not ok and shown<6: shown+=1; print(name,col,freqs,rtol,'got',[g[:2] for g in got],'exp',[e[:2] for e in exp],oo)
print(stats)
