import quiet
import numpy as np, pandas as pd, itertools, copy, collections
from pyoma2.functions import gen
names=['a','b']
def base(mapcells, cstr=None, sign=None, perm_pts=(0,1)):
    pts=pd.DataFrame([[0.,0,0],[1,0,0]],index=pd.Index([1,2],name='ptName'),columns=['x','y','z'])
    mp=pd.DataFrame(np.array(mapcells,dtype=object).reshape(2,3),index=pd.Index([1,2],name='ptName'),columns=['x','y','z'])
    sn=pd.DataFrame([names],index=pd.Index([1],name='setup No.'))
    d={'sensors names':sn,'points coordinates':pts,'mapping':mp,'constraints':pd.DataFrame() if cstr is None else cstr}
    if sign is not None: d['sensors sign']=sign
    return d
stats=collections.Counter(); shown=0
phi=np.array([0.5,-2.0])
alphabet=['a','b','c1',0,np.nan]
cstr=pd.DataFrame([[1.0,-0.5]],index=pd.Index(['c1'],name='cName'),columns=['a','b'])
for cells in itertools.product(alphabet,repeat=6):
    strs=[str(c) for c in cells]
    has_all=all(n in strs for n in names); uses_c='c1' in strs
    for withc in (False,True):
        d=base(cells, cstr if withc else None)
        expect_ok = has_all and (uses_c==withc or (uses_c and not withc and False) )
        # spec: names must be present; constraint table rows must be used by mapping; mapping naming an undefined constraint: ? not in statement -> not judged
        try:
            r=gen.check_on_geo2(copy.deepcopy(d)); acc=True
        except ValueError: acc=False
        except Exception as e:
            stats['EXC '+type(e).__name__]+=1
            if shown<5: shown+=1; print('EXC',cells,withc,type(e).__name__,str(e)[:80])
            continue
        if not has_all: stats['missing name: '+('accepted' if acc else 'ValueError')]+=1; continue
        if withc and not uses_c: stats['unused constraint: '+('accepted' if acc else 'ValueError')]+=1; continue
        if uses_c and not withc: stats['undefined constraint (not judged): '+('accepted' if acc else 'ValueError')]+=1; continue
        if not acc: stats['valid rejected']+=1; continue
        # mapping
        try:
            m=gen.dfphi_map_func(phi,r[0],r[2],cstrn=r[3]).to_numpy()
        except Exception as e:
            stats['map EXC '+type(e).__name__]+=1
            if shown<8: shown+=1; print('MAPEXC',cells,withc,type(e).__name__,str(e)[:100])
            continue
        val={'a':0.5,'b':-2.0,'c1':1.0*0.5-0.5*-2.0}
        exp=np.array([val.get(c,0.0) if isinstance(c,str) else 0.0 for c in cells]).reshape(2,3)
        stats['map ok' if np.allclose(m,exp) else 'map BAD']+=1
        if not np.allclose(m,exp) and shown<10: shown+=1; print('BAD',cells,m,exp)
for k,v in sorted(stats.items()): print(k,v)
