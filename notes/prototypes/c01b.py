import quiet
import numpy as np, itertools, time, sys, collections
from pyoma2.functions import ssi
import hashlib
def pay(tag,i,lo,hi):
    h=hashlib.sha256(f"{tag}:{i}".encode()).digest(); u=int.from_bytes(h[:8],'big')/2**64; return lo+(hi-lo)*u
def system(m,l,placement,damp,cm,fs,seed):
    if placement=='spread': f=np.linspace(0.04,0.44,m+2)[1:-1] if m>1 else np.array([0.2])
    elif placement=='pair': f=np.concatenate([[0.20,0.23],np.linspace(0.3,0.42,max(m-2,0))])[:m]
    elif placement=='low': f=np.concatenate([[0.02],np.linspace(0.1,0.4,max(m-1,0))])[:m]
    elif placement=='high': f=np.concatenate([np.linspace(0.05,0.35,max(m-1,0)),[0.45]])[-m:]
    xi={'lo':np.full(m,0.002),'hi':np.full(m,0.08),'graded':np.linspace(0.002,0.08,m) if m>1 else np.array([0.02])}[damp]
    fn=np.sort(f)*fs; wn=2*np.pi*fn; lam=-xi*wn+1j*wn*np.sqrt(1-xi**2)
    Phi=np.array([[pay('p',(seed,r,k),0.3,1.5)*(1 if int(pay('s',(seed,r,k),0,2)) else -1) for k in range(m)] for r in range(l)],complex)
    if cm: Phi=Phi+1j*np.array([[pay('q',(seed,r,k),-0.6,0.6) for k in range(m)] for r in range(l)])
    amp=np.array([pay('a',(seed,k),1,2)*np.exp(1j*pay('b',(seed,k),0,6.28)) for k in range(m)])
    return fn,xi,lam,Phi,amp
def decay(lam,Phi,amp,N,fs):
    z=np.exp(np.outer(lam/fs,np.arange(N))); return 2*np.real((Phi*amp)@z)
def mac(a,b): return abs(np.vdot(a,b))**2/(np.vdot(a,a).real*np.vdot(b,b).real)
worst=collections.defaultdict(lambda:[0,0,0]); bad=[]; n=0; t0=time.time(); guards=[]
for m,l,pl,dp,cm,N,meth in itertools.product([1,2,4,6],[2,3,8],['spread','pair','low','high'],['lo','hi','graded'],[False,True],[800,1500],['cov_mm','dat']):
    if pl=='pair' and m<2: continue
    fs=100.
    fn,xi,lam,Phi,amp=system(m,l,pl,dp,cm,fs,0)
    Y=decay(lam,Phi,amp,N,fs)
    for refs in ([0],list(range(l))):
        r=len(refs); br=max(int(np.ceil(2*m/l)),int(np.ceil(2*m/r)))+1
        # truth guards
        zd=np.exp(lam/fs); zz=np.concatenate([zd,zd.conj()]); PP=np.hstack([Phi,Phi.conj()])
        Op=np.vstack([PP*zz**i for i in range(br)]); cO=np.linalg.cond(Op)
        Opr=np.vstack([PP[refs]*zz**i for i in range(br+1)]); cR=np.linalg.cond(Opr)
        X=np.array([np.concatenate([amp,amp.conj()])*zz**k for k in range(N)]).T; s=np.linalg.svd(X,compute_uv=False); cX=s[0]/s[-1]
        H,_=ssi.build_hank(Y,Y[refs],br,meth)
        Obs,A,C,*_=ssi.SSI_fast(H,br,2*m)
        Fn,Xi_,Ph,L,*_=ssi.SSI_poles(Obs,A,C,2*m,1/fs)
        F=Fn[:,2*m];Xc=Xi_[:,2*m];P=Ph[:,2*m]
        ef=ex=em=0
        for j in range(m):
            i=np.nanargmin(abs(F-fn[j])); ef=max(ef,abs(F[i]-fn[j])/fn[j]); ex=max(ex,abs(Xc[i]-xi[j])/xi[j]); em=max(em,1-max(mac(P[i],Phi[:,j]),mac(P[i],Phi[:,j].conj())))
        n+=1; e=max(ef/1e-7,ex/1e-6,em/1e-9)
        guards.append((cO,cR,cX,ef,ex,em,m,l,pl,dp,cm,N,meth,r,br))
print(n,'cases',round(time.time()-t0,1),'s')
g=np.array([x[:6] for x in guards],float)
for thr in [(1e6,1e6,1e8),(1e5,1e5,1e6),(1e4,1e4,1e5)]:
    ok=(g[:,0]<=thr[0])&(g[:,1]<=thr[1])&(g[:,2]<=thr[2])
    print('guard',thr,'admits',ok.sum(),'worst ef %.1e ex %.1e em %.1e'%(g[ok,3].max(),g[ok,4].max(),g[ok,5].max()))
ix=np.argsort(-g[:,4])[:6]
for i in ix: print('worst ex:',['%.1e'%v for v in guards[i][:6]],guards[i][6:])
