import quiet
import numpy as np, inspect
from pyoma2.functions import plscf, fdd
from scipy import signal
from sysgen import make_system
rng=np.random.default_rng(0)
fs=100.; N=200000; l=4
fn,xi,lam,Phi=make_system(3,l,rng,False,fs=fs,fmin=0.05,fmax=0.3,ximin=0.01,ximax=0.03,minsep=0.06)
Y=np.zeros((N,l))
for k in range(3):
    wn=2*np.pi*fn[k]
    b,a=signal.bilinear([1.0],[1,2*xi[k]*wn,wn**2],fs)
    q=signal.lfilter(b,a,rng.standard_normal(N)); Y+=np.outer(q/q.std(),Phi[:,k])
print('true',fn,xi)
src0=inspect.getsource(plscf.ac2mp_poly)
for tag,rep in [('current',"lam_c - 1 / tau"),('minus/dt',"lam_c - 1 / (tau*dt)"),('plus/dt',"lam_c + 1 / (tau*dt)"),('none',"lam_c")]:
    ns={}; exec(src0.replace("lam_c - 1 / tau",rep), plscf.__dict__, ns); plscf.ac2mp_poly=ns['ac2mp_poly']
    for nx in [512,2048]:
        f,Sy=fdd.SD_est(Y.T,Y.T,1/fs,nx,method='cor')
        Ad,Bn=plscf.pLSCF(Sy,1/fs,10,sgn_basf=+1)
        Fn,Xi,Ph,L=plscf.pLSCF_poles(Ad,Bn,1/fs,'cor',nx)
        F=Fn[:,9]; X=Xi[:,9]
        out=[]
        for j in range(3):
            i=np.nanargmin(abs(F-fn[j])); out.append((round(F[i],3),round(X[i],4)))
        print(tag,nx,out)
