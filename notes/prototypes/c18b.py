import numpy as np, warnings
warnings.simplefilter('ignore')
from pyoma2.functions.gen import MAC,MPC,MPD,MCF,MSF
print(np.__version__)
rng=np.random.default_rng(1)
for n in [2,3,4,8,16,64]:
  for t in range(200):
    v=rng.standard_normal(n)
    if t%3==0: v[rng.integers(n)]=0.0
    if t%5==0: v=np.round(v*2)
    if not v.any(): continue
    c=np.exp(1j*rng.uniform(0,2*np.pi))*10**rng.uniform(-6,6)
    phi=c*v
    if t%2==0: phi=phi/phi[np.argmax(abs(phi))]
    p=MPC(phi)
    if not np.isfinite(p) or abs(p-1)>1e-6: print(n,v,c,p, np.cov(phi.real,phi.imag))
x=MPC(np.array([1.,2,3])*np.exp(0.7j)); print(type(x), x, x>=0.7)
x=MPC(np.array([1.,2,3])+0j); print(type(x),x)
