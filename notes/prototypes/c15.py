import quiet
import numpy as np, pickle, tempfile, os
from pyoma2.setup import SingleSetup, MultiSetup_PreGER
from pyoma2.algorithms import FDD,EFDD,FSDD,SSIcov,SSIdat,pLSCF
from pyoma2.functions.gen import save_to_file, load_from_file
rng=np.random.default_rng(0)
Y=rng.standard_normal((3000,3))
ss=SingleSetup(Y,50.)
a=[FDD(name='FDD',nxseg=256),EFDD(name='EFDD',nxseg=256),SSIcov(name='SSI',br=6,ordmax=8,hc=dict(conj=False,xi_max=1.0,mpc_lim=0.0,mpd_lim=10.0,cov_max=1e9)),pLSCF(name='pL',ordmax=4,nxseg=256)]
ss.add_algorithms(*a)
for n in ['FDD','EFDD','SSI','pL']:
    try:
        if n in('FDD','EFDD'): ss.mpe(n,sel_freq=[5.0])
        else: ss.mpe(n,sel_freq=[5.0],order=4)
        print(n,'mpe before run: no exception')
    except Exception as e: print(n,'mpe before run ->',type(e).__name__,str(e)[:60], 'result', ss[n].result, 'sel_freq stored', getattr(ss[n].run_params,'sel_freq',None))
b=FDD(name='noparam'); ss.add_algorithms(b)
try: ss.run_by_name('noparam')
except Exception as e: print('run w/o params ->',type(e).__name__)
c=SSIcov(name='unbound',br=4,ordmax=4)
try: c._pre_run()
except Exception as e: print('unbound prerun ->',type(e).__name__, str(e)[:50])
del ss.algorithms['noparam']
ss.run_all()
ss['SSI'].run_params.hc['xi_max']=1.0; ss.run_by_name('SSI'); ss.mpe('SSI',sel_freq=[5.0,10.],order=8,rtol=0.9)
p=os.path.join(tempfile.mkdtemp(dir='/root/scratch'),'s.pkl'); save_to_file(ss,p); s2=load_from_file(p)
print('pickle ok', np.array_equal(s2['SSI'].result.Fn_poles,ss['SSI'].result.Fn_poles,equal_nan=True), s2['SSI'].run_params==ss['SSI'].run_params, s2['FDD'].result.freq.shape)
print(ss['SSI'].result.Fn, ss['SSI'].result.order_out)
