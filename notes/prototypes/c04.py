import numpy as np
from pyoma2.functions import fdd
from pyoma2.functions.gen import pre_multisetup
rng=np.random.default_rng(0)
N=4096; fs=50.; nx=256
X=rng.standard_normal((N,7))
# refs global 0,1 ; setup1 rov 2,3 ; setup2 rov 4,5,6
d1=X[:,[2,0,3,1]]; r1=[1,3]
d2=X[:,[1,4,5,0,6]]; r2=[3,0]
Y=pre_multisetup([d1,d2],[r1,r2])
for meth in ['per','cor']:
  for pov in [0.5,0.25,0.0]:
    f,S=fdd.SD_PreGER(Y,fs,nxseg=nx,pov=pov,method=meth)
    f2,S2=fdd.SD_est(X.T,X[:,[0,1]].T,1/fs,nx,method=meth,pov=pov)
    print(meth,pov,S.shape,S2.shape,np.allclose(f,f2), np.max(abs(S-S2))/np.max(abs(S2)))
# gain invariance
Yg=[{'ref':Y[0]['ref']*3,'mov':Y[0]['mov']*3},Y[1]]
f,S=fdd.SD_PreGER(Y,fs,nxseg=nx,method='per'); f,Sg=fdd.SD_PreGER(Yg,fs,nxseg=nx,method='per')
G0=fdd.SD_est(np.vstack([Y[0]['ref'],Y[0]['mov']]),Y[0]['ref'],1/fs,nx,'per')[1][:2]
G1=fdd.SD_est(np.vstack([Y[1]['ref'],Y[1]['mov']]),Y[1]['ref'],1/fs,nx,'per')[1][:2]
print('ref block mean', np.max(abs(S[:2]-(G0+G1)/2)), np.max(abs(Sg[:2]-(9*G0+G1)/2)))
# roving block of setup1 = T1 * mean
T=np.array([ (S[2:4,:,k]@np.linalg.inv(S[:2,:,k])) for k in range(S.shape[2])])
Tg=np.array([ (Sg[2:4,:,k]@np.linalg.inv(Sg[:2,:,k])) for k in range(S.shape[2])])
print('transmissibility invariance', np.max(abs(T-Tg))/np.max(abs(T)))
