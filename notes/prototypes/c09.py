import quiet
import numpy as np, itertools, collections, time
from pyoma2.setup import SingleSetup
from pyoma2.algorithms import SSIcov
import pyoma2.algorithms.ssi as assi
from pyoma2.functions import gen
real=np.array([1.0,0.6,-0.4]); cplx=np.array([1.0,0.5j,-0.4+0.3j]); mild=np.array([1.0,0.6+0.05j,-0.4-0.03j])
print('MPC/MPD cplx',gen.MPC(cplx),gen.MPD(cplx),'mild',gen.MPC(mild),gen.MPD(mild),'real',gen.MPC(real),gen.MPD(real))
def lam(f,xi): w=2*np.pi*f; return -xi*w+1j*w*np.sqrt(1-xi**2)
cat={'good':(10.,0.02,real,True),'negdamp':(12.,-0.01,real,True),'highdamp':(14.,0.3,real,True),'complex':(16.,0.02,cplx,True),'mild':(18.,0.02,mild,True),'noconj':(20.,0.02,real,False),'empty':None}
ordmax=4; Nch=3
def designed(slots):  # slots: dict (order)->list of up to 2 pole-pair keys
    Fn=np.full((ordmax,ordmax+1),np.nan); Xi=Fn.copy(); L=np.full((ordmax,ordmax+1),np.nan,complex); Phi=np.full((ordmax,ordmax+1,Nch),np.nan,complex)
    for o,keys in slots.items():
        r=0
        for k in keys:
            if cat[k] is None: r+=2; continue
            f,xi,phi,conj=cat[k]; f=f+0.01*o
            for s,(l,p) in enumerate([(lam(f,xi),phi),(np.conj(lam(f,xi)),np.conj(phi))]):
                if s==1 and not conj: r+=1; continue
                Fn[r,o]=abs(l)/2/np.pi; Xi[r,o]=-l.real/abs(l); L[r,o]=l; Phi[r,o]=p; r+=1
    return Fn,Xi,Phi,L
cur={}
def fake_poles(Obs,AA,CC,ordmax_,dt,step=1,calc_unc=False,**kw):
    Fn,Xi,Phi,L=cur['tab']; return Fn.copy(),Xi.copy(),Phi.copy(),L.copy(),None,None,None
assi.ssi.SSI_poles=fake_poles
Y=np.random.default_rng(0).standard_normal((40,Nch)); 
keys=list(cat); stats=collections.Counter(); t=time.time(); n=0; shown=0
for k1,k2,k3,k4 in itertools.product(keys,repeat=4):
    tab=designed({3:[k1,k2],4:[k3,k4]}); cur['tab']=tab
    for conj,xim,mpc,mpd in [(True,0.1,0.7,0.3),(False,1.0,0.0,np.pi/2),(True,0.1,0.0,0.01),(False,0.01,0.99,np.pi/2)]:
        ss=SingleSetup(Y,100.); a=SSIcov(name='a',br=2,ordmax=ordmax,hc=dict(conj=conj,xi_max=xim,mpc_lim=mpc,mpd_lim=mpd,cov_max=1e9)); ss.add_algorithms(a); ss.run_by_name('a'); n+=1
        r=a.result; Fn,Xi,Phi,L=tab
        lamset=set(L[~np.isnan(L)].tolist())
        for (i,o),f in np.ndenumerate(Fn):
            if np.isnan(f): 
                if not np.isnan(r.Fn_poles[i,o]): stats['appeared']+=1
                continue
            c_conj=(not conj) or (np.conj(L[i,o]) in lamset)
            c_x=0<Xi[i,o]<xim; m1=gen.MPC(Phi[i,o]).real; m2=gen.MPD(Phi[i,o])
            c_mpc=m1>=mpc; c_mpd=(m2<=mpd)
            keep=c_conj and c_x and c_mpc and c_mpd
            kept=not np.isnan(r.Fn_poles[i,o])
            pat=[np.isnan(r.Fn_poles[i,o]),np.isnan(r.Xi_poles[i,o]),np.isnan(r.Lambds[i,o]),np.isnan(r.Phi_poles[i,o]).all(),np.isnan(r.Phi_poles[i,o]).any()]
            if len(set(pat))!=1: stats['pattern mismatch']+=1
            if kept and not keep:
                why=[n_ for n_,c in [('conj',c_conj),('xi',c_x),('mpc',c_mpc),('mpd',c_mpd)] if not c]
                stats['UNSOUND '+'+'.join(why)+(' mpdNaN' if np.isnan(m2) else '')]+=1
            elif keep and not kept: stats['INCOMPLETE']+=1
            else: stats['ok']+=1
print(n,'runs',time.time()-t,'s'); 
for k,v in sorted(stats.items()): print(k,v)
