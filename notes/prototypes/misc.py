import quiet
import numpy as np, types
import matplotlib; matplotlib.use('Agg')
from pyoma2.setup import SingleSetup, MultiSetup_PreGER
from pyoma2.algorithms import SSIcov, pLSCF
from pyoma2.functions import gen, ssi as fssi, plscf as fpl
rng=np.random.default_rng(0)
Y=rng.standard_normal((3000,3))
# (1) MPD mask effect
ss=SingleSetup(Y,50.)
res={}
for mpd in [10.0, 1e-6]:
    a=SSIcov(name='a',br=6,ordmax=8,hc=dict(conj=False,xi_max=1.0,mpc_lim=0.0,mpd_lim=mpd,cov_max=1e9)); ss.add_algorithms(a); ss.run_by_name('a'); res[mpd]=np.sum(~np.isnan(a.result.Fn_poles))
print('MPD lim effect (retained poles):',res)
# (3) C14 single T after decimate, multi dt and kwargs
ss=SingleSetup(Y,50.); ss.decimate_data(q=2); print('single after decimate fs,dt,Ndat,T', ss.fs,ss.dt,ss.Ndat,ss.T,'expected T',ss.Ndat*ss.dt)
ms=MultiSetup_PreGER(fs=50.,ref_ind=[[0],[0]],datasets=[Y.copy(),Y.copy()])
ms.decimate_data(q=2); print('multi after decimate fs,dt,Ndats,Ts',ms.fs,ms.dt,ms.Ndats,ms.Ts)
try: ms.decimate_data(q=2,ftype='fir'); print('multi decimate ftype ok')
except Exception as e: print('multi decimate ftype ->',type(e).__name__,str(e)[:80])
ms=MultiSetup_PreGER(fs=50.,ref_ind=[[0],[0]],datasets=[Y.copy(),Y.copy()])
ms.filter_data(Wn=5.0,order=4); d_after_filter=ms.data[0]['ref'].copy(); ms.decimate_data(q=2)
from scipy.signal import decimate
exp=decimate(gen.filter_data(Y,50.,5.0,4),2,axis=0)[:,0]; got=ms.data[0]['ref'][0]
exp_stale=decimate(Y,2,axis=0)[:,0]
print('multi filter->decimate matches composed:',np.allclose(got,exp),' matches stale(unfiltered):',np.allclose(got,exp_stale))
# (6) pLSCF plot_cluster
ss=SingleSetup(Y,50.); p=pLSCF(name='p',ordmax=4,nxseg=256); ss.add_algorithms(p); ss.run_all()
try: p.plot_cluster(); print('plot_cluster ok')
except Exception as e: print('pLSCF.plot_cluster ->',type(e).__name__,str(e)[:80])
# (2) pLSCF find_min
try:
    ss.mpe('p',sel_freq=[5.0],order='find_min'); print('find_min order_out',p.result.order_out,p.result.Fn)
except Exception as e: print('pLSCF find_min ->',type(e).__name__,str(e)[:80])
# (5) geo2 without constraints sheet
import pandas as pd
fd={'sensors names':pd.DataFrame([['a','b']],index=[1]),'points coordinates':pd.DataFrame([[0,0,0],[1,0,0]],index=[1,2],columns=list('xyz')),'mapping':pd.DataFrame([['a',0,0],['b',0,0]],index=[1,2],columns=list('xyz'))}
try: gen.check_on_geo2(dict(fd)); print('geo2 no constraints ok')
except Exception as e: print('geo2 no constraints ->',type(e).__name__,str(e)[:80])
fd['constraints']=pd.DataFrame()
try:
    r=gen.check_on_geo2(dict(fd)); print('geo2 ok', r[0], r[3], r[4].shape)
    print(gen.dfphi_map_func(np.array([0.5,-2.0]),r[0],r[2],cstrn=r[3]))
except Exception as e: print('geo2 empty constraints ->',type(e).__name__,str(e)[:200])
