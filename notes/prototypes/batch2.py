import quiet
import numpy as np, itertools, collections
from scipy import signal
from pyoma2.functions import ssi, fdd, gen
from pyoma2.setup import SingleSetup, MultiSetup_PreGER, MultiSetup_PoSER
from pyoma2.algorithms import SSIcov, SSIdat, FDD, EFDD, FSDD, pLSCF, FDD_MS, EFDD_MS, pLSCF_MS, SSIcov_MS, SSIdat_MS
from c01b import system, decay, mac
NH=dict(conj=False,xi_max=1.0,mpc_lim=0.0,mpd_lim=10.0,cov_max=1e9)
# C01 via class incl mpe
fs=100.; m=3; l=4; fn,xi,lam,Phi,amp=system(m,l,'spread','graded',True,fs,2); Y=decay(lam,Phi,amp,1200,fs).T
for cls,meth in [(SSIcov,'cov_mm'),(SSIdat,'dat')]:
    ss=SingleSetup(Y,fs); a=cls(name='a',br=4,ordmax=2*m,method=meth,ref_ind=[3,1],hc=NH); ss.add_algorithms(a); ss.run_by_name('a'); ss.mpe('a',sel_freq=list(fn),order=2*m)
    r=a.result; print('C01 class',meth,'Fn',np.max(abs(r.Fn-fn)/fn),'Xi',np.max(abs(r.Xi-xi)/xi),'Phi shape',r.Phi.shape,'mac',[round(1-max(mac(r.Phi[:,j],Phi[:,j]),mac(r.Phi[:,j],Phi[:,j].conj())),15) for j in range(m)],'norm',[r.Phi[np.argmax(abs(r.Phi[:,j])),j] for j in range(m)])
# C02 end-to-end PoSER
G=Phi; setups=[]; refs=[[1,0],[0,2]]; chans=[[1,0,2],[0,3,1]]  # global rows for each setup channel; refs global rows 0,1
# setup1 channels: [g1,g0,g2] refs at positions [1,0]->(g0,g1); setup2 channels [g0,g3,g1], refs positions [0,2]->(g0,g1)
for k,(ch,amp_s) in enumerate(zip(chans,[1.0,-7.3])):
    a2=amp*np.array([1.0,0.3+0.5j,2.0])**k
    Yk=decay(lam,Phi[ch],a2,1200,fs).T*amp_s
    s=SingleSetup(Yk,fs); al=SSIcov(name=f'ssi{k}',br=6,ordmax=2*m,method='cov_mm',hc=NH); s.add_algorithms(al); s.run_all(); s.mpe(f'ssi{k}',sel_freq=list(fn),order=2*m); setups.append(s)
msp=MultiSetup_PoSER(ref_ind=refs,single_setups=setups,names=['ssi']); res=msp.merge_results()['ssi']
order=[0,1,2,3]  # refs (g0,g1) then rov s1 (g2) then rov s2 (g3)
print('C02 e2e Fn',np.max(abs(res.Fn-fn)/fn),'Fn_cov',np.max(abs(res.Fn_cov)),'Phi mac',[round(1-max(mac(res.Phi[:,j],G[order,j]),mac(res.Phi[:,j],G[order,j].conj())),12) for j in range(m)])
# C04/C06 via classes (multi-setup FDD/EFDD/pLSCF) + pov forwarding
rng=np.random.default_rng(0); N=4096; X=np.zeros((N,5))
for f0,x0,ph in [(7.,0.02,[1,.6,-.5,.8,.3]),(16.,0.015,[.4,-1,.7,.2,-.9])]:
    wn=2*np.pi*f0; b,a=signal.bilinear([1.0],[1,2*x0*wn,wn**2],fs); q=signal.lfilter(b,a,rng.standard_normal(N)); X+=np.outer(q/q.std(),ph)
X+=0.05*rng.standard_normal(X.shape)
d1=X[:,[2,0,1]]; d2=X[:,[1,3,4,0]]; ref=[[1,2],[3,0]]   # refs global 0,1
for cls in (FDD_MS,EFDD_MS,pLSCF_MS):
    for pov in (0.5,0.25):
        ms=MultiSetup_PreGER(fs=fs,ref_ind=ref,datasets=[d1,d2])
        a=cls(name='a',nxseg=256,method_SD='per',pov=pov,**({'ordmax':4} if cls is pLSCF_MS else {})); ms.add_algorithms(a); ms.run_all()
        f2,S2=fdd.SD_est(X.T,X[:,[0,1]].T,1/fs,256,'per',pov)
        print('C04 class',cls.__name__,pov,'freq',np.allclose(a.result.freq,f2),'Sy err',np.max(abs(a.result.Sy[:,:,1:]-S2[:,:,1:]))/np.max(abs(S2)))
# C06 via class FDD_MS mpe
ms=MultiSetup_PreGER(fs=fs,ref_ind=ref,datasets=[d1,d2]); a=FDD_MS(name='a',nxseg=256); ms.add_algorithms(a); ms.run_all(); ms.mpe('a',sel_freq=[7.0,16.0],DF=1.0)
r=a.result
for j,f0 in enumerate([7.0,16.0]):
    k=int(np.where(r.freq==r.Fn[j])[0][0]); U,s,_=np.linalg.svd(r.Sy[:,:,k]); lo=np.argmin(abs(r.freq-(f0-1))); hi=np.argmin(abs(r.freq-(f0+1)))
    ratios=[np.linalg.svd(r.Sy[:,:,i],compute_uv=False) for i in range(lo,hi+1)]; ra=[x[0]/x[1] for x in ratios]
    print('C06 class line',k,'in',lo,hi,'is max of [lo,hi):',np.isclose(s[0]/s[1],max(ra[:-1])),'mac',1-mac(r.Phi[:,j],U[:,0].conj()))
