import quiet, time
import numpy as np
import matplotlib; matplotlib.use('Agg'); import matplotlib.pyplot as plt
from pyoma2.functions import ssi, gen, plot, plscf, fdd
Fn=np.array([[np.nan,5.0,5.1,5.05],[np.nan,np.nan,9.0,9.1],[np.nan,np.nan,np.nan,2.0]])
Xi=np.where(np.isnan(Fn),np.nan,0.01*(1+np.arange(12).reshape(3,4)))
Phi=np.where(np.isnan(Fn)[:,:,None],np.nan,(np.arange(24).reshape(3,4,2)+1.0)).astype(complex)
Lab=np.where(np.isnan(Fn),0,1)
def T(f,n=200):
    t=time.perf_counter()
    for _ in range(n): f()
    return (time.perf_counter()-t)/n*1e3
print('SSI_mpe int ms',T(lambda: ssi.SSI_mpe([5.0,9.0],Fn,Xi,Phi,3)))
print('SSI_mpe find_min ms',T(lambda: ssi.SSI_mpe([5.0,9.0],Fn,Xi,Phi,'find_min',Lab=Lab)))
print('pLSCF_mpe int ms',T(lambda: plscf.pLSCF_mpe([5.0,9.0],Fn,Xi,Phi,3)))
print('SC_apply ms',T(lambda: gen.SC_apply(Fn,Xi,Phi,0,3,1,0.01,0.05,0.03)))
def sp():
    fig,ax=plot.stab_plot(Fn,Lab,1,3,hide_poles=False); plt.close('all')
print('stab_plot ms',T(sp,20))
def cp():
    fig,ax=plot.cluster_plot(Fn,Xi,Lab); plt.close('all')
print('cluster_plot ms',T(cp,20))
# Welch independent
rng=np.random.default_rng(0)
def welch_ref(X,R,fs,nx,pov):
    nov=int(nx*pov); step=nx-nov; N=X.shape[1]
    w=np.hanning(nx+1)[:-1]  # periodic hann
    import scipy.signal as s; w=s.get_window('hann',nx)
    segs=range(0,N-nx+1,step)
    acc=0; K=0
    for s0 in segs:
        xs=X[:,s0:s0+nx]; rs=R[:,s0:s0+nx]
        xs=xs-xs.mean(1,keepdims=True); rs=rs-rs.mean(1,keepdims=True)
        Xf=np.fft.rfft(xs*w,axis=1); Rf=np.fft.rfft(rs*w,axis=1)
        acc=acc+np.conj(Xf)[:,None,:]*Rf[None,:,:]; K+=1
    S=acc/K/(fs*(w**2).sum()); S[:,:,1:-1]*=2
    return np.arange(nx//2+1)*fs/nx,S
X=rng.standard_normal((3,1000))
for nx,pov in [(64,0.5),(32,0.25),(128,0.75),(16,0.0)]:
    f,S=fdd.SD_est(X,X[[2,0]],1/7.0,nx,'per',pov); f2,S2=welch_ref(X,X[[2,0]],7.0,nx,pov)
    print(nx,pov,np.allclose(f,f2),np.max(abs(S-S2))/np.max(abs(S2)))
