import quiet
import numpy as np
import matplotlib; matplotlib.use('Agg'); import matplotlib.pyplot as plt
from pyoma2.algorithms import SSIcov, pLSCF, FDD
from pyoma2.algorithms.data.result import SSIResult, pLSCFResult, FDDResult
Fn=np.array([[np.nan,5.0,5.1,5.05],[np.nan,np.nan,9.0,9.1],[np.nan,2.0,np.nan,2.05]]); Lab=np.array([[0,0,1,1],[0,0,0,1],[0,0,0,1]])
Xi=np.where(np.isnan(Fn),np.nan,0.02); cov=np.where(np.isnan(Fn),np.nan,np.array([[0,.01,.2,.01],[0,0,.01,3.],[0,.01,0,.01]]))
a=SSIcov(name='a',br=3,ordmax=3); a._set_data(np.zeros((10,2)),20.)
for c in (None,cov):
    a.result=SSIResult(Fn_poles=Fn,Xi_poles=Xi,Phi_poles=np.ones((3,4,2),complex),Lab=Lab,Fn_poles_cov=c)
    for hide in (True,False):
        try:
            fig,ax=a.plot_stab(freqlim=(0,10),hide_poles=hide)
            conts=ax.containers
            print('stab cov' if c is not None else 'stab', hide, 'ok', 'lines',len(ax.get_lines()),'collections',len(ax.collections),'containers',len(conts))
            for ct in conts:
                # ErrorbarContainer: (data_line, caplines, barlinecols)
                segs=ct[2][0].get_segments(); print('   errorbar segments',len(segs), [np.round(s,3).tolist() for s in segs][:4])
        except Exception as e: print('stab',hide,type(e).__name__,e)
        plt.close('all')
    try: fig,ax=a.plot_cluster(hide_poles=False); print('cluster ok'); plt.close('all')
    except Exception as e: print('cluster',type(e).__name__,e)
p=pLSCF(name='p',ordmax=4,nxseg=64); p._set_data(np.zeros((10,2)),20.); p.result=pLSCFResult(Fn_poles=Fn,Xi_poles=Xi,Phi_poles=np.ones((3,4,2),complex),Lab=Lab)
for hide in (True,False):
    fig,ax=p.plot_stab(hide_poles=hide); l=[x for x in ax.get_lines() if x.get_marker()=='o'][0]; print('pLSCF stab',hide,np.round(l.get_xydata()[~np.isnan(l.get_xydata()).any(1)],2).tolist()); plt.close('all')
f=FDD(name='f',nxseg=64); f._set_data(np.zeros((10,2)),20.); S=np.zeros((2,2,5)); S[0,0]=[1,4,2,1,.5]; S[1,1]=[.5,1,1,.2,.1]
f.result=FDDResult(freq=np.arange(5.),Sy=np.zeros((2,2,5)),S_val=S,S_vec=np.zeros((2,2,5)))
for nSv in ('all',1):
    fig,ax=f.plot_CMIF(nSv=nSv); print('CMIF',nSv,len(ax.get_lines())); plt.close('all')
try: f.plot_CMIF(nSv=2)
except Exception as e: print('CMIF nSv=2 (=n) ->',type(e).__name__)
