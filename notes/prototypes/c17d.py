import quiet
import numpy as np, sys, itertools, collections, time, hashlib
from pyoma2.functions import ssi
def pay(tag,i,lo=-1,hi=1):
    h=hashlib.sha256(f"{tag}:{i}".encode()).digest(); u=int.from_bytes(h[:8],'big')/2**64; return lo+(hi-lo)*u
def ident(H,br,n,dt):
    Obs,A,C,*_=ssi.SSI_fast(H,br,n); Fn,Xi,Phi,Lam,*_=ssi.SSI_poles(Obs,A,C,n,dt); return Fn[:,n],Lam[:,n]
def make_H(l,r,br,n,seed,dt):
    m=n//2
    f=np.linspace(0.06,0.4,m+2)[1:-1]/dt if m>1 else np.array([0.17/dt]); xi=np.array([0.01+0.03*pay('x',(seed,k),0,1) for k in range(m)])
    lam=-xi*2*np.pi*f+1j*2*np.pi*f*np.sqrt(1-xi**2)
    A=np.zeros((n,n)); C=np.array([[pay('C',(seed,i,j)) for j in range(n)] for i in range(l)]); G=np.array([[pay('G',(seed,i,j)) for j in range(r)] for i in range(n)])
    for k in range(m):
        z=np.exp(lam[k]*dt); A[2*k:2*k+2,2*k:2*k+2]=[[z.real,z.imag],[-z.imag,z.real]]
    O=np.vstack([C@np.linalg.matrix_power(A,i) for i in range(br+1)]); Con=np.hstack([np.linalg.matrix_power(A,i)@G for i in range(br+1)])
    H=O@Con; E=np.array([[pay('E',(seed,i,j)) for j in range(H.shape[1])] for i in range(H.shape[0])])
    return H+1e-3*np.linalg.norm(H)/np.linalg.norm(E)*E
st=collections.Counter(); errs=[]; t0=time.time()
for l,br,n,ncol in itertools.product([1,2,3],[2,3,4,5],[2,4,6,8],[1,3]):
  for r in range(1,l+1):
    if (br+1)*r<n+1 or br*l<n: st['too small']+=1; continue
    dt=0.01; H=make_H(l,r,br,n,(l,r,br,n),dt)
    s=np.linalg.svd(H,compute_uv=False)
    gaps=np.min((s[:n]-s[1:n+1])/s[:n])
    f0,L0=ident(H,br,n,dt); zsep=np.min([abs(np.exp(L0[i]*dt)-np.exp(L0[j]*dt)) for i in range(n) for j in range(i)])
    if gaps<1e-3 or zsep<0.05: st['guard']+=1; continue
    T=np.array([[pay('T',(l,r,br,n,i,k)) for k in range(ncol)] for i in range(H.size)])*1e-3*np.linalg.norm(H)/np.sqrt(H.size)
    Obs,A,C,Q1,Q2,Q3,Q4=ssi.SSI_fast(H,br,n,calc_unc=True,T=T,nb=ncol)
    Fn,Xi,Phi,Lam,Fc,Xc,Pc=ssi.SSI_poles(Obs,A,C,n,dt,calc_unc=True,Q1=Q1,Q2=Q2,Q3=Q3,Q4=Q4)
    fd=np.zeros(n); ok=True
    for k in range(ncol):
        D=T[:,k].reshape(H.shape,order='F')
        ds=[]
        for eps in (1e-3,2.5e-4):
            fp,_=ident(H+eps*D,br,n,dt); fm,_=ident(H-eps*D,br,n,dt)
            ds.append(np.array([(fp[np.argmin(abs(fp-f0[j]))]-fm[np.argmin(abs(fm-f0[j]))])/(2*eps) for j in range(n)]))
        if np.max(abs(ds[0]-ds[1])/(abs(ds[1])+1e-12*abs(f0)))>1e-4: ok=False
        fd+=ds[1]**2
    if not ok: st['fd disagree']+=1; continue
    rel=np.max(abs(Fc[:n,n]-fd)/fd); errs.append(rel); st['judged']+=1
    if rel>1e-3: st['VIOL']+=1; print('VIOL',l,r,br,n,ncol,rel)
print(st, 'max rel %.2e median %.2e'%(max(errs),np.median(errs)), round(time.time()-t0,1),'s')
