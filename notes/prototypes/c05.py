import numpy as np, sys
from pyoma2.functions import plscf
rng=np.random.default_rng(int(sys.argv[1]) if len(sys.argv)>1 else 0)
def polyeig_roots(alpha):
    # alpha: (n+1,Nch,Nch): sum alpha_i z^i ; independent linearisation via generalized eig
    n=alpha.shape[0]-1; m=alpha.shape[1]
    # first companion form: z*[I..;..An] x = C x
    import scipy.linalg as sl
    A0=np.zeros((n*m,n*m)); B0=np.eye(n*m)
    A0[:-m, m:]=np.eye((n-1)*m)
    for i in range(n): A0[-m:, i*m:(i+1)*m]=-alpha[i]
    B0[-m:,-m:]=alpha[n]
    w=sl.eig(A0,B0,right=False)
    return w
worst=0
for trial in range(60):
    n=int(rng.integers(1,9)); Nch=int(rng.integers(2,6)); Nref=int(rng.integers(1,6))
    sgn=int(rng.choice([-1,1])); dt=float(10**rng.uniform(-3,0))
    Nf=int(4*(n+1)+rng.integers(0,200))
    # well conditioned: alpha_0 = I (LO) or alpha_n=I (HI), others moderate
    alpha=rng.standard_normal((n+1,Nch,Nch))*0.5
    if sgn==-1: alpha[0]=np.eye(Nch); alpha[n]+=0  
    else: alpha[n]=np.eye(Nch)
    # make alpha_n invertible & alpha_0 too
    alpha[n]+= np.eye(Nch)*(0 if sgn==1 else 1.0)
    beta=rng.standard_normal((n+1,Nref,Nch))
    fs=1/dt; freq=np.linspace(0,fs/2,Nf); Om=np.exp(sgn*1j*2*np.pi*freq*dt)
    Sy=np.zeros((Nref,Nch,Nf),complex)
    for k,z in enumerate(Om):
        A=sum(alpha[i]*z**i for i in range(n+1)); B=sum(beta[i]*z**i for i in range(n+1))
        Sy[:,:,k]=B@np.linalg.inv(A)
    Ad,Bn=plscf.pLSCF(Sy,dt,n,sgn_basf=sgn)
    ea=np.max(abs(Ad[n-1]-alpha)); eb=np.max(abs(Bn[n-1]-beta))
    Fn,Xi,Phi,Lam=plscf.pLSCF_poles(Ad,Bn,dt,'per',1024)
    roots=polyeig_roots(alpha)
    lam=np.log(roots)/dt
    keep=lam[lam.real<=0]
    got=Lam[:,n-1]; got=got[~np.isnan(got)]
    ok=len(got)==len(keep)
    if ok:
        # match sets
        d=max(min(abs(g-keep)) for g in got)/max(abs(keep)) if len(keep) else 0
        d2=max(min(abs(g-got)) for g in keep)/max(abs(keep)) if len(keep) else 0
    else: d=d2=np.nan
    fnn=Fn[:,n-1]; nn=np.sum(~np.isnan(fnn))
    print(n,Nch,Nref,sgn,f"{dt:.3g}",Nf,f"ea={ea:.2e} eb={eb:.2e} npoles={len(got)}/{len(keep)} of {n*Nch} d={d:.2e} {d2:.2e} nanFn={nn}", 'cond', f"{np.linalg.cond(alpha[n]):.1f}")
