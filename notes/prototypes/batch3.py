import quiet
import numpy as np, itertools, collections, time
from scipy import signal
from pyoma2.setup import SingleSetup, MultiSetup_PreGER
from pyoma2.algorithms import SSIcov, SSIdat, FDD, EFDD, FSDD, pLSCF, FDD_MS, EFDD_MS, pLSCF_MS, SSIcov_MS, SSIdat_MS
fs=100.; rng=np.random.default_rng(0); N=6000; l=4; X=np.zeros((N,l))
for f0,x0,ph in [(7.,0.02,[1,.6,-.5,.8]),(16.,0.015,[.4,-1,.7,.2]),(29.,0.01,[-.3,.5,1,-.8])]:
    wn=2*np.pi*f0; b,a=signal.bilinear([1.0],[1,2*x0*wn,wn**2],fs); q=signal.lfilter(b,a,rng.standard_normal(N)); X+=np.outer(q/q.std(),ph)
X+=0.05*rng.standard_normal(X.shape)
HC=dict(conj=True,xi_max=0.2,mpc_lim=0.5,mpd_lim=0.5,cov_max=1e9); NH=dict(conj=False,xi_max=1.0,mpc_lim=-1.0,mpd_lim=10.0,cov_max=1e9)
def algos(ref,hc):
    return [SSIcov(name='SSIcov',br=8,ordmax=10,method='cov_mm',ref_ind=ref,hc=hc),SSIcov(name='SSIcovR',br=8,ordmax=10,method='cov_R',ref_ind=ref,hc=hc),SSIdat(name='SSIdat',br=8,ordmax=10,ref_ind=ref,hc=hc),
            pLSCF(name='pL',ordmax=5,nxseg=256,hc={k:v for k,v in hc.items() if k!='cov_max'}),FDD(name='FDD',nxseg=256),EFDD(name='EFDD',nxseg=512),FSDD(name='FSDD',nxseg=512)]
def run(Y,ref,hc):
    ss=SingleSetup(Y,fs); al=algos(ref,hc); ss.add_algorithms(*al); ss.run_all()
    for n in ('FDD',): ss.mpe(n,sel_freq=[7.,16.,29.],DF=1.0)
    for n in ('EFDD','FSDD'): ss.mpe(n,sel_freq=[7.,16.,29.],DF1=1.0,DF2=3.0)
    return {a.name:a.result for a in al}
def cmpn(a,b):
    a=np.asarray(a);b=np.asarray(b)
    if not np.array_equal(np.isnan(a),np.isnan(b)): return 'NANPAT%d'%np.sum(np.isnan(a)!=np.isnan(b))
    m=~np.isnan(a); return 0.0 if not m.any() else float(np.max(abs(a[m]-b[m])/(abs(b[m])+1e-300)))
ref=[0,2]; R0=run(X,ref,HC)
# permutations
for perm in [(1,0,2,3),(3,2,1,0),(2,3,0,1)]:
    P=list(perm); Yp=X[:,P]; refp=[P.index(r) for r in ref]   # new channel j = old P[j]; old ref r sits at new index P.index(r)
    R=run(Yp,refp,HC)
    for n in R0:
        r0,r=R0[n],R[n]
        if hasattr(r0,'Fn_poles') and r0.Fn_poles is not None:
            print('perm',perm,n,'Fn',cmpn(r0.Fn_poles,r.Fn_poles),'Xi',cmpn(r0.Xi_poles,r.Xi_poles),'Phi',cmpn(r0.Phi_poles[:,:,P],r.Phi_poles),'Lab',np.array_equal(r0.Lab,r.Lab))
        else:
            print('perm',perm,n,'Fn',cmpn(r0.Fn,r.Fn),'Phi',cmpn(r0.Phi[P,:],r.Phi),'Xi',cmpn(getattr(r0,'Xi',np.zeros(1)) if getattr(r0,'Xi',None) is not None else np.zeros(1),getattr(r,'Xi',np.zeros(1)) if getattr(r,'Xi',None) is not None else np.zeros(1)))
# orthogonal mixing (neutral hc), all channels as reference for SSI
Q,_=np.linalg.qr(rng.standard_normal((l,l)))
R0n=run(X,None,NH); Rq=run(X@Q.T,None,NH)
def macm(a,b): return abs(np.vdot(a,b))**2/(np.vdot(a,a).real*np.vdot(b,b).real)
for n in ('SSIcov','SSIcovR','SSIdat','pL'):
    r0,r=R0n[n],Rq[n]; m=~np.isnan(r0.Fn_poles)
    mm=min(macm(Q@r0.Phi_poles[i,o],r.Phi_poles[i,o]) for (i,o),v in np.ndenumerate(m) if v and not np.isnan(r.Fn_poles[i,o]))
    print('mix',n,'Fn',cmpn(r0.Fn_poles,r.Fn_poles),'Xi',cmpn(r0.Xi_poles,r.Xi_poles),'min MAC',mm)
for n in ('FDD','EFDD','FSDD'):
    r0,r=R0n[n],Rq[n]; print('mix',n,'Fn',cmpn(r0.Fn,r.Fn),'min MAC',min(macm(Q@r0.Phi[:,j],r.Phi[:,j]) for j in range(3)))
print('--- multiset comparison per column for pLSCF')
def colmatch(r0,r,T):
    worst=0; lab_ok=True
    for o in range(r0.Fn_poles.shape[1]):
        a=[(r0.Fn_poles[i,o],r0.Xi_poles[i,o],T(r0.Phi_poles[i,o]),r0.Lab[i,o]) for i in range(r0.Fn_poles.shape[0]) if not np.isnan(r0.Fn_poles[i,o])]
        b=[(r.Fn_poles[i,o],r.Xi_poles[i,o],r.Phi_poles[i,o],r.Lab[i,o]) for i in range(r.Fn_poles.shape[0]) if not np.isnan(r.Fn_poles[i,o])]
        if len(a)!=len(b): return 'COUNT',o,len(a),len(b)
        used=set()
        for fa,xa,pa,la in a:
            best=None
            for j,(fb,xb,pb,lb) in enumerate(b):
                if j in used: continue
                d=abs(fa-fb)/fa+abs(xa-xb)+(1-abs(np.vdot(pa,pb))**2/(np.vdot(pa,pa).real*np.vdot(pb,pb).real))+ (0 if abs(np.vdot(pa,pb)/ (np.linalg.norm(pa)*np.linalg.norm(pb)) -1)<1e-3 or True else 0)
                if best is None or d<best[0]: best=(d,j,lb)
            used.add(best[1]); worst=max(worst,best[0]); lab_ok&=(best[2]==la)
    return worst,lab_ok
for perm in [(1,0,2,3),(3,2,1,0),(2,3,0,1)]:
    P=list(perm); R=run(X[:,P],[P.index(r) for r in ref],HC)
    print('perm',perm,'pL',colmatch(R0['pL'],R['pL'],lambda p:p[P]))
print('mix pL',colmatch(R0n['pL'],Rq['pL'],lambda p:Q@p))
