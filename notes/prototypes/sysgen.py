import numpy as np
def make_system(m, l, rng, complex_modes=False, fmin=0.02, fmax=0.45, ximin=0.002, ximax=0.08, fs=100.0, minsep=0.03):
    # frequencies as fraction of fs, well separated
    while True:
        f = np.sort(rng.uniform(fmin, fmax, m))
        if m==1 or np.min(np.diff(f))>minsep: break
    fn = f*fs
    xi = rng.uniform(ximin, ximax, m)
    wn = 2*np.pi*fn
    lam = -xi*wn + 1j*wn*np.sqrt(1-xi**2)
    Phi = rng.standard_normal((l,m))
    if complex_modes:
        Phi = Phi + 1j*0.5*rng.standard_normal((l,m))
    return fn, xi, lam, Phi
def free_decay(lam, Phi, N, fs, rng, amp=None):
    m = len(lam); dt=1/fs
    if amp is None:
        amp = (1+rng.uniform(0,1,m))*np.exp(1j*rng.uniform(0,2*np.pi,m))
    k = np.arange(N)
    z = np.exp(np.outer(lam*dt, k))  # m x N
    Y = 2*np.real((Phi*amp) @ z)    # l x N
    return Y.T  # N x l
def mac(a,b):
    return abs(np.vdot(a,b))**2/(np.vdot(a,a).real*np.vdot(b,b).real)
