import quiet
import numpy as np, itertools, collections, time, pickle, hashlib
from pyoma2.setup import SingleSetup, MultiSetup_PoSER
from pyoma2.algorithms import FDD,EFDD,FSDD,SSIcov,SSIdat,pLSCF
from pyoma2.algorithms.base import BaseAlgorithm
rng=np.random.default_rng(0)
from scipy import signal
Y=np.zeros((600,3))
for fn_,xi_,ph in [(5.,0.03,[1,.7,-.4]),(11.,0.02,[.5,-1,.8])]:
    wn=2*np.pi*fn_; b,a=signal.bilinear([1.0],[1,2*xi_*wn,wn**2],50.); q=signal.lfilter(b,a,rng.standard_normal(600)); Y+=np.outer(q/q.std(),ph)
Y+=0.05*rng.standard_normal(Y.shape)
NH=dict(conj=False,xi_max=1.0,mpc_lim=0.0,mpd_lim=10.0,cov_max=1e9)
MENU={'FDD':lambda:FDD(name='FDD',nxseg=64),'EFDD':lambda:EFDD(name='EFDD',nxseg=128),'SSIcov':lambda:SSIcov(name='SSIcov',br=4,ordmax=6,hc=NH),
      'SSIdat':lambda:SSIdat(name='SSIdat',br=4,ordmax=6,hc=NH),'pLSCF':lambda:pLSCF(name='pLSCF',ordmax=3,nxseg=64,hc=NH),'NOPAR':lambda:FDD(name='NOPAR')}
MPE={'FDD':dict(sel_freq=[5.0],DF=1.0),'EFDD':dict(sel_freq=[5.0],DF1=1.0,DF2=4.0,sppk=1,npmax=3),'SSIcov':dict(sel_freq=[5.0],order=6,rtol=10.0),'SSIdat':dict(sel_freq=[5.0],order=6,rtol=10.0),'pLSCF':dict(sel_freq=[5.0],order=2,rtol=10.0),'NOPAR':dict(sel_freq=[5.0])}
def h(x):
    m=hashlib.sha256()
    def rec(v):
        if v is None: m.update(b'N')
        elif isinstance(v,np.ndarray): m.update(str(v.dtype).encode()+str(v.shape).encode()+np.ascontiguousarray(v).tobytes())
        elif isinstance(v,(list,tuple)): 
            m.update(b'L'); [rec(i) for i in v]
        elif isinstance(v,dict): 
            for k in sorted(v): m.update(k.encode()); rec(v[k])
        elif hasattr(v,'model_dump'): rec({k:getattr(v,k) for k in type(v).model_fields})
        else: m.update(repr(v).encode())
    rec(x); return m.hexdigest()[:12]
def state(ss):
    return tuple(sorted((n,h(a.result),h(a.run_params)) for n,a in ss.algorithms.items())), h(ss.data)
# isolated references
REF={}
for n,mk in MENU.items():
    if n=='NOPAR': continue
    ss=SingleSetup(Y.copy(),50.); a=mk(); ss.add_algorithms(a); ss.run_by_name(n); r1=h(a.result); ss.mpe(n,**MPE[n]); REF[n]=(r1,h(a.result))
print(REF)
names=['FDD','SSIcov','pLSCF']
EV=[('add',n) for n in names]+[('run',n) for n in names]+[('runall',)]+[('mpe',n) for n in names]
st=collections.Counter(); first={}; t=time.time()
for d in (1,2,3):
  for hist in itertools.product(EV,repeat=d):
    ss=SingleSetup(Y.copy(),50.); d0=h(ss.data); model={}
    for ev in hist:
        before=state(ss)
        try:
            if ev[0]=='add': ss.add_algorithms(MENU[ev[1]]()); exc=None
            elif ev[0]=='run': ss.run_by_name(ev[1]); exc=None
            elif ev[0]=='runall': ss.run_all(); exc=None
            else: ss.mpe(ev[1],**MPE[ev[1]]); exc=None
        except Exception as e: exc=e
        # model
        exp_exc=False
        if ev[0]=='add': model[ev[1]]='added'
        elif ev[0]=='run':
            if ev[1] not in model: exp_exc=True
            else: model[ev[1]]='ran'
        elif ev[0]=='runall':
            for k in model: model[k]='ran'
        else:
            if model.get(ev[1]) not in ('ran','mpe'): exp_exc=True
            else: model[ev[1]]='mpe'
        if exp_exc!=(exc is not None): st['gate mismatch']+=1; first.setdefault('gate mismatch',(hist,ev,repr(exc))); break
        if exc is not None and state(ss)!=before: st['state changed on reject']+=1; first.setdefault('state changed on reject',(hist,ev)); break
        bad=False
        for k,v in model.items():
            a=ss[k]
            if v=='added' and a.result is not None: bad=True
            if v=='ran' and h(a.result)!=REF[k][0]: bad=True
            if v=='mpe' and h(a.result)!=REF[k][1]: bad=True
        if bad or h(ss.data)!=d0: st['result mismatch']+=1; first.setdefault('result mismatch',(hist,ev,model)); break
    else: st['ok']+=1
print(sum(st.values()),'histories',round(time.time()-t,1),'s',st); 
for k,v in first.items(): print(k,v)
# pickle
ss=SingleSetup(Y.copy(),50.); [ss.add_algorithms(MENU[n]()) for n in names]; ss.run_all(); [ss.mpe(n,**MPE[n]) for n in names]
s2=pickle.loads(pickle.dumps(ss)); print('pickle equal',state(ss)==state(s2))
