import quiet
import numpy as np, sys
from pyoma2.setup import SingleSetup
from pyoma2.algorithms import FDD,EFDD,FSDD,SSIcov,SSIdat,pLSCF
from scipy import signal
rng=np.random.default_rng(0)
# random response of 3-mode 4-ch system
fs=100.; N=20000; l=4
from sysgen import make_system
fn,xi,lam,Phi=make_system(3,l,rng,False,fs=fs,fmin=0.05,fmax=0.3,ximin=0.01,ximax=0.03,minsep=0.06)
# simulate by modal filtering of white noise
Y=np.zeros((N,l))
for k in range(3):
    wn=2*np.pi*fn[k]
    b,a=signal.bilinear([1.0],[1,2*xi[k]*wn,wn**2],fs)
    q=signal.lfilter(b,a,rng.standard_normal(N))
    Y+=np.outer(q/q.std(),Phi[:,k])
Y+=0.05*rng.standard_normal(Y.shape)
def algos():
    hc=dict(conj=True,xi_max=0.2,mpc_lim=0.5,mpd_lim=0.5,cov_max=1e9)
    return [FDD(name='FDD',nxseg=512,method_SD='per'),FDD(name='FDDc',nxseg=512,method_SD='cor'),
            FSDD(name='FSDD',nxseg=1024,method_SD='per'),EFDD(name='EFDD',nxseg=1024,method_SD='cor'),
            SSIcov(name='SSIcov',br=10,ordmax=12,method='cov_mm',hc=hc),SSIcov(name='SSIcovR',br=10,ordmax=12,method='cov_R',hc=hc),
            SSIdat(name='SSIdat',br=10,ordmax=12,hc=hc),
            pLSCF(name='pL',ordmax=6,nxseg=512,method_SD='per',hc=hc),pLSCF(name='pLc',ordmax=6,nxseg=512,method_SD='cor',hc=hc)]
def run(Y,fs):
    ss=SingleSetup(Y,fs); al=algos(); ss.add_algorithms(*al); ss.run_all(); return {a.name:a.result for a in al}
def cmp(a,b,scale=1.0):
    a=np.asarray(a); b=np.asarray(b)
    if not np.array_equal(np.isnan(a),np.isnan(b)): return 'NANPATTERN %d'%np.sum(np.isnan(a)!=np.isnan(b))
    m=~np.isnan(a)
    if not m.any(): return 0.0
    return float(np.max(abs(a[m]*scale-b[m])/(abs(b[m])+1e-300)))
R0=run(Y,fs)
for tag,(Y2,fs2,k) in {'gain1e3':(Y*1e3,fs,1.0),'gain-1e-4':(Y*-1e-4,fs,1.0),'fs x7':(Y,fs*7,7.0),'fs x0.01':(Y,fs*0.01,0.01)}.items():
    R=run(Y2,fs2)
    for n in R0:
        r0,r=R0[n],R[n]
        if hasattr(r0,'Fn_poles') and r0.Fn_poles is not None:
            print(tag,n,'Fn',cmp(r0.Fn_poles,r.Fn_poles,k),'Xi',cmp(r0.Xi_poles,r.Xi_poles),'Phi',cmp(r0.Phi_poles,r.Phi_poles),'Lab',np.array_equal(r0.Lab,r.Lab))
        else:
            print(tag,n,'freq',cmp(r0.freq,r.freq,k),'Svec', cmp(abs(r0.S_vec),abs(r.S_vec)))
