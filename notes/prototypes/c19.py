import quiet
import numpy as np, pandas as pd, itertools, copy
from pyoma2.functions import gen
print(pd.__version__)
def geo1_tables(names, perm, multi=None):
    idx=[names[i] for i in perm]
    coord=pd.DataFrame([[i,10*i,100*i] for i in perm],index=pd.Index(idx,name='label'),columns=['x','y','z'])
    dirs=pd.DataFrame([[1 if i%3==0 else 0,1 if i%3==1 else 0,1 if i%3==2 else 0] for i in perm],index=pd.Index(idx,name='label'),columns=['x','y','z'])
    sn=pd.DataFrame([names],index=pd.Index([1],name='setup No.'),columns=[f'chann. {i+1}' for i in range(len(names))])
    d={'sensors names':sn,'sensors coordinates':coord,'sensors directions':dirs,
       'sensors lines':pd.DataFrame([[1,2]],index=pd.Index([1],name='label'),columns=['start','end']),
       'BG nodes':pd.DataFrame([[0,0,0],[1,1,1]],index=pd.Index([1,2],name='label'),columns=['x','y','z']),
       'BG lines':pd.DataFrame([[1,2]],index=pd.Index([1],name='label'),columns=['start','end']),
       'BG surfaces':pd.DataFrame([[1,2,2]],index=pd.Index([1],name='lab'),columns=['i','j','k'])}
    return d
names=['a','b','c']
for perm in itertools.permutations(range(3)):
    d=geo1_tables(names,perm)
    r=gen.check_on_geo1(copy.deepcopy(d))
    ok=(r[0]==names and r[1].index.tolist()==names and np.array_equal(r[1].values,[[i,10*i,100*i] for i in range(3)]) and np.array_equal(r[2],[[1,0,0],[0,1,0],[0,0,1]]) and np.array_equal(r[3],[[0,1]]) and np.array_equal(r[5],[[0,1]]) and np.array_equal(r[6],[[0,1,1]]))
    print(perm,ok)
# optional omitted
d=geo1_tables(names,(2,0,1))
for k in ['sensors lines','BG nodes','BG lines','BG surfaces']: d.pop(k)
r=gen.check_on_geo1(copy.deepcopy(d)); print('omit opt ->',[type(x).__name__ for x in r])
# corruptions
def tryit(tag,d,fun=gen.check_on_geo1,**kw):
    try: fun(copy.deepcopy(d),**kw); print(tag,'-> accepted')
    except ValueError as e: print(tag,'-> ValueError')
    except Exception as e: print(tag,'->',type(e).__name__,str(e)[:70])
base=geo1_tables(names,(0,1,2))
d=dict(base); d.pop('sensors names'); tryit('no names',d)
d=dict(base); d['foo']=pd.DataFrame([[1]]); tryit('unknown sheet',d)
d=dict(base); d['sensors coordinates']=base['sensors coordinates'][['x','y']]; tryit('coord 2 cols',d)
d=dict(base); d['sensors directions']=base['sensors directions'].iloc[:2]; tryit('dir rows',d)
d=dict(base); d['sensors directions']=base['sensors directions'].rename(index={'a':'zz'}); tryit('dir index',d)
d=dict(base); d['sensors coordinates']=base['sensors coordinates'].rename(index={'a':'zz'}); d['sensors directions']=base['sensors directions'].rename(index={'a':'zz'}); tryit('name missing in coord',d)
d=dict(base); d['BG lines']=pd.DataFrame([[1,2,3]]); tryit('BG lines 3 cols',d)
d=dict(base); d['BG nodes']=pd.DataFrame([[1,2]]); tryit('BG nodes 2 cols',d)
d=dict(base); d['BG surfaces']=pd.DataFrame([[1,2]]); tryit('BG surf 2 cols',d)
# multi-setup names
sn=pd.DataFrame([['r1','a','r2',np.nan],['b','r2','c','r1']],index=[1,2])
print(gen.flatten_sns_names(sn,[[0,2],[3,1]]))
print(gen.flatten_sns_names([['r1','a','r2'],['b','r2','c','r1']],[[0,2],[3,1]]))
print(gen.flatten_sns_names(np.array(['a','b'])), gen.flatten_sns_names(['a','b']))
