import quiet
import numpy as np, itertools, collections
from pyoma2.functions import fdd
rng=np.random.default_rng(0)
def unitary(n):
    q,_=np.linalg.qr(rng.standard_normal((n,n))+1j*rng.standard_normal((n,n))); return q
n=3; Nf=17; fs=16.0; freq=np.arange(Nf)*fs/(2*(Nf-1))
stats=collections.Counter()
for herm in (True,False):
  Us=[unitary(n) for _ in range(Nf)]; Ws=Us if herm else [unitary(n) for _ in range(Nf)]
  for prof in itertools.permutations([1.5,3,10,30,100],5):
    for off in (0,6,12):
        ratio=np.full(Nf,1.2); ratio[off:off+5]=prof
        Sy=np.zeros((n,n,Nf),complex)
        for k in range(Nf):
            s=np.array([ratio[k]**2,1.0,0.3])*(1+0.1*k)   # stored are sqrt -> ratio of stored = ratio
            Sy[:,:,k]=Us[k]@np.diag(s)@Ws[k].conj().T
        Sval,Svec=fdd.SD_svalsvec(Sy)
        # decomposition check
        for k in (0,5,Nf-1):
            U=Svec[:,:,k].conj().T
            assert np.allclose(U.conj().T@U,np.eye(n),atol=1e-10)
            sv=np.diag(Sval[:,:,k]); assert np.all(sv>=0) and np.all(np.diff(sv)<=1e-12)
            M=U.conj().T@(Sy[:,:,k]@Sy[:,:,k].conj().T)@U
            assert np.allclose(M,np.diag(sv**4),atol=1e-8*abs(M).max()),(M,sv)
        df=freq[1]
        for sel in list(freq[1:-1])+list(freq[:-1]+df/2):
            for DF in (1*df,2*df,3.5*df):
                Fn,Phi=fdd.FDD_mpe(Sval,Svec,freq,[sel],DF=DF)
                ilo=np.argmin(abs(freq-(sel-DF))); ihi=np.argmin(abs(freq-(sel+DF)))
                idx=np.where(freq==Fn[0])[0]
                if len(idx)!=1: stats['not grid']+=1; continue
                idx=idx[0]
                r=ratio
                okband= ilo<=idx<=ihi
                okmax = np.isclose(r[idx],r[ilo:ihi].max()) or np.isclose(r[idx],r[ilo:ihi+1].max())
                u1=np.linalg.svd(Sy[:,:,idx])[0][:,0]
                mac=abs(np.vdot(Phi[:,0],u1.conj()))**2/(np.vdot(Phi[:,0],Phi[:,0]).real)
                oknorm=np.isclose(Phi[np.argmax(abs(Phi[:,0])),0],1)
                stats['ok' if okband and okmax and mac>1-1e-10 and oknorm else f'bad band={okband} max={okmax} mac={mac:.3f}']+=1
    break
  
print(stats)
