import quiet
import numpy as np, sys
from pyoma2.functions import ssi
from sysgen import *
rng=np.random.default_rng(int(sys.argv[1]) if len(sys.argv)>1 else 0)
def ident(H,br,n,dt):
    Obs,A,C,*_=ssi.SSI_fast(H,br,n)
    Fn,Xi,Phi,Lam,*_=ssi.SSI_poles(Obs,A,C,n,dt)
    return Fn[:,n],Xi[:,n]
def make_H(l,r,br,m,rng,dt):
    fn,xi,lam,Phi=make_system(m,l,rng,False,fs=1/dt,ximin=0.01,ximax=0.05,minsep=0.06)
    n=2*m
    # real state-space: modal block form
    A=np.zeros((n,n)); C=np.zeros((l,n)); G=rng.standard_normal((n,r))
    for k in range(m):
        z=np.exp(lam[k]*dt); A[2*k:2*k+2,2*k:2*k+2]=[[z.real,z.imag],[-z.imag,z.real]]
        C[:,2*k]=Phi[:,k]; C[:,2*k+1]=rng.standard_normal(l)*0.3
    p=br
    O=np.vstack([C@np.linalg.matrix_power(A,i) for i in range(p+1)])
    Con=np.hstack([np.linalg.matrix_power(A,i)@G for i in range(p+1)])
    H=O@Con
    H=H+1e-3*np.linalg.norm(H)/np.sqrt(H.size)*rng.standard_normal(H.shape)
    return H,n
for trial in range(8):
    l=int(rng.integers(1,4)); r=int(rng.integers(1,l+1)); br=int(rng.integers(2,6)); dt=0.01
    m=int(rng.integers(1,3))
    while (br+1)*r<2*m+1 or br*l<2*m: br+=1
    H,n=make_H(l,r,br,m,rng,dt)
    D=rng.standard_normal(H.shape); D/=np.linalg.norm(D); D*=1e-3*np.linalg.norm(H)
    f0,_=ident(H,br,n,dt)
    eps=1e-4
    fp,_=ident(H+eps*D,br,n,dt); fm,_=ident(H-eps*D,br,n,dt)
    # match poles by nearest
    der=[]
    for j in range(n):
        jp=np.argmin(abs(fp-f0[j])); jm=np.argmin(abs(fm-f0[j]))
        der.append((fp[jp]-fm[jm])/(2*eps))
    der=np.array(der)
    for name,T in [('C',D.reshape(-1,1)),('F',D.reshape(-1,1,order='F'))]:
        try:
            Obs,A,C,Q1,Q2,Q3,Q4=ssi.SSI_fast(H,br,n,calc_unc=True,T=T,nb=1)
            Fn,Xi,Phi,Lam,Fc,Xc,Pc=ssi.SSI_poles(Obs,A,C,n,dt,calc_unc=True,Q1=Q1,Q2=Q2,Q3=Q3,Q4=Q4)
            print(l,r,br,n,name,'fn',np.round(Fn[:,n],3),'cov',Fc[:,n],'fd^2',der**2)
        except Exception as e:
            print(l,r,br,n,name,'EXC',repr(e)[:200])
