import quiet
import numpy as np
from pyoma2.functions import fdd
rng=np.random.default_rng(0)
for nx in [64,256,1024]:
  for N in [20*nx, 60*nx]:
    x=rng.standard_normal(N)
    for d in sorted(set([1,2,max(1,nx//64)])):
      for g in [0.1,-1,10]:
        y=np.zeros(N); y[d:]=g*x[:-d]
        X=np.vstack([x,y]); fs=50.
        for meth in ['per','cor']:
            f,S=fdd.SD_est(X,X,1/fs,nx,meth,0.5)
            ratio=S[0,1]/S[0,0]   # i=source, j=delayed
            exp=g*np.exp(-2j*np.pi*f*d/fs)
            err=abs(ratio-exp)/abs(exp)
            opp=abs(np.conj(ratio)-exp)/abs(exp)
            sl=slice(2,None)
            print(nx,N//nx,d,g,meth,'max %.3f med %.3f | opposite-conj med %.3f'%(err[sl].max(),np.median(err[sl]),np.median(opp[sl])))
