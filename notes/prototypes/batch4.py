import quiet
import numpy as np, itertools, collections, time
from pyoma2.setup import MultiSetup_PoSER, SingleSetup
from pyoma2.algorithms.base import BaseAlgorithm
from pyoma2.algorithms.data.result import BaseResult
from pyoma2.algorithms.data.run_params import BaseRunParams
class RP(BaseRunParams): p:int=1
class RS(BaseResult): pass
class A(BaseAlgorithm[RP,RS,object]):
    RunParamCls=RP; ResultCls=RS
    def run(self): return RS()
    def mpe(self,*a,**k): self.result.Fn=np.array([1.]); self.result.Phi=np.ones((2,1))
    def mpe_from_plot(self,*a,**k): pass
class B(A): pass
def mk(cls,state,name):
    a=cls(name=name,run_params=RP())
    if state>=1: a.result=RS()
    if state>=2: a.result.Fn=np.array([1.]); a.result.Phi=np.ones((2,1))
    return a
per=[()]+[((c,s),) for c in (A,B) for s in range(3)]+[((c1,s1),(c2,s2)) for c1 in (A,B) for s1 in range(3) for c2 in (A,B) for s2 in range(3)]
print(len(per),'per-setup configs')
st=collections.Counter(); first={}; t=time.time()
class FakeSetup:  # SingleSetup-like holder (constructor only reads .algorithms)
    def __init__(s,algs): s.algorithms=algs
for ns in range(0,4):
    for cfg in itertools.product(per,repeat=ns):
        setups=[]
        for i,c in enumerate(cfg):
            ss=SingleSetup(np.zeros((4,2)),10.); 
            ss.algorithms={f'a{j}':mk(cl,stt,f'a{j}') for j,(cl,stt) in enumerate(c)}
            setups.append(ss)
        for nn in range(0,4):
            names=[f'n{k}' for k in range(nn)]
            valid = ns>=2 and all(len(c)>0 for c in cfg) and all([x[0] for x in c]==[x[0] for x in cfg[0]] for c in cfg) and all(x[1]==2 for c in cfg for x in c) and nn==len(cfg[0]) if ns>0 else False
            try: MultiSetup_PoSER(ref_ind=[[0]]*ns,single_setups=setups,names=names); out='accepted'
            except ValueError: out='ValueError'
            except Exception as e: out=type(e).__name__
            k=('valid' if valid else 'invalid')+'->'+out; st[k]+=1; first.setdefault(k,(ns,[[ (x[0].__name__,x[1]) for x in c] for c in cfg],nn))
print(round(time.time()-t,1),'s',dict(st))
for k,v in first.items():
    if k not in ('valid->accepted','invalid->ValueError'): print(k,v)
