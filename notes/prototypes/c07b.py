import quiet
import numpy as np
from pyoma2.functions import fdd
orig=fdd.SD_svalsvec
rng=np.random.default_rng(0)
def run(patch):
    rng=np.random.default_rng(0); out=[]
    if patch:
        # emulate fix: bell uses squared stored value -> monkeypatch SDOF_bellandMS via wrapper of SD_svalsvec only inside it is hard; instead patch by post-processing: call with method 'EFDD' but pass Sy**? not possible. Use source edit emulation:
        import inspect, types
        src=inspect.getsource(fdd.SDOF_bellandMS).replace("Sval[csm, csm, l_] if","Sval[csm, csm, l_]**2 if")
        ns={}; exec(src, fdd.__dict__, ns); fdd.SDOF_bellandMS=ns['SDOF_bellandMS']
    for trial in range(80):
        nxseg=int(rng.choice([1024,2048,4096,8192])); fs=float(rng.choice([10,100,1000.]))
        Nf=nxseg//2+1; freq=np.arange(Nf)*fs/nxseg; dt=1/fs
        fn=rng.uniform(0.04,0.25)*fs; xi=rng.uniform(0.02,0.05)
        bw=2*xi*fn; df=fs/nxseg
        l=int(rng.integers(2,7)); phi=rng.standard_normal(l); phi/=phi[np.argmax(abs(phi))]
        if bw/df<4 or fn*nxseg/2*dt<30: continue
        w=2*np.pi*freq; wn=2*np.pi*fn
        S=1/((wn**2-w**2)**2+(2*xi*wn*w)**2); S/=S.max()
        Sy=(np.einsum('i,j,k->ijk',phi,phi,S)+1e-9*np.eye(l)[:,:,None]).astype(complex)
        for meth in ['EFDD','FSDD']:
            Fn,Xi,Phi,_=fdd.EFDD_mpe(Sy,freq,dt,[fn],'per',method=meth,DF1=max(2*df,0.1*bw),DF2=4*bw)
            out.append((meth,float(abs(Fn.ravel()[0]-fn)/fn), float(abs(Xi.ravel()[0]-xi)/xi)))
    for meth in ['EFDD','FSDD']:
        a=np.array([(x[1],x[2]) for x in out if x[0]==meth]); print(patch,meth,len(a),'fn max %.4f med %.4f | xi max %.4f med %.4f'%(a[:,0].max(),np.median(a[:,0]),a[:,1].max(),np.median(a[:,1])))
run(False); run(True)
