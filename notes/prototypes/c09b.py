import quiet
import numpy as np, itertools, collections, time
from pyoma2.setup import SingleSetup, MultiSetup_PreGER
from pyoma2.algorithms import pLSCF, pLSCF_MS, SSIdat_MS, SSIcov_MS, SSIdat
import pyoma2.algorithms.ssi as assi, pyoma2.algorithms.plscf as apl
from pyoma2.functions import gen
real=np.array([1.0,0.6,-0.4]); cplx=np.array([1.0,0.9j,-0.4+0.6j]); mild=np.array([1.0,0.6+0.05j,-0.4-0.03j])
print('cplx',gen.MPC(cplx).real,gen.MPD(cplx))
def lam(f,xi): w=2*np.pi*f; return -xi*w+1j*w*np.sqrt(1-xi**2)
cat={'good':(10.,0.02,real,True),'negdamp':(12.,-0.01,real,True),'highdamp':(14.,0.3,real,True),'complex':(16.,0.02,cplx,True),'mild':(18.,0.02,mild,True),'noconj':(20.,0.02,real,False),'empty':None}
Nch=3
def designed(R,C,slots):
    Fn=np.full((R,C),np.nan); Xi=Fn.copy(); L=np.full((R,C),np.nan,complex); Phi=np.full((R,C,Nch),np.nan,complex)
    for o,keys in slots.items():
        r=0
        for k in keys:
            if cat[k] is None: r+=2; continue
            f,xi,phi,conj=cat[k]; f=f+0.01*o
            for s,(l,p) in enumerate([(lam(f,xi),phi),(np.conj(lam(f,xi)),np.conj(phi))]):
                if s==1 and not conj: r+=1; continue
                Fn[r,o]=abs(l)/2/np.pi; Xi[r,o]=-l.real/abs(l); L[r,o]=l; Phi[r,o]=p; r+=1
    return Fn,Xi,Phi,L
cur={}
assi.ssi.SSI_poles=lambda *a,**k: tuple(x.copy() for x in cur['tab'])+(None,None,None)
apl.plscf.pLSCF_poles=lambda *a,**k: tuple(x.copy() for x in cur['tab'])
Y=np.random.default_rng(0).standard_normal((80,Nch)); Y2=np.random.default_rng(1).standard_normal((80,Nch))
keys=list(cat)
CR=[(True,0.1,0.7,0.3),(False,1.0,0.0,np.pi/2),(True,0.1,0.0,0.01),(False,0.01,0.99,np.pi/2)]
for cls,kind in [(pLSCF,'single'),(pLSCF_MS,'multi'),(SSIdat_MS,'multi'),(SSIcov_MS,'multi')]:
    stats=collections.Counter(); t=time.time()
    ispl=cls in (pLSCF,pLSCF_MS)
    R,C=(4,4)
    for k1,k2,k3,k4 in itertools.product(keys,repeat=4):
        cols=(2,3) if ispl else (3,4)
        tab=designed(4,4 if ispl else 5,{cols[0]:[k1,k2],cols[1]:[k3,k4]}); cur['tab']=tab
        for conj,xim,mpc,mpd in CR[:2]+CR[2:]:
            hc=dict(conj=conj,xi_max=xim,mpc_lim=mpc,mpd_lim=mpd)
            if not ispl: hc['cov_max']=1e9
            if kind=='single': s=SingleSetup(Y,100.)
            else: s=MultiSetup_PreGER(fs=100.,ref_ind=[[0,1],[0,1]],datasets=[Y,Y2])
            a=cls(name='a',ordmax=4,nxseg=16,hc=hc) if ispl else cls(name='a',br=3,ordmax=4,hc=hc)
            s.add_algorithms(a); s.run_by_name('a'); r=a.result
            Fn,Xi,Phi,L=tab; lamset=set(L[~np.isnan(L)].tolist())
            for (i,o),f in np.ndenumerate(Fn):
                if np.isnan(f):
                    if not np.isnan(r.Fn_poles[i,o]): stats['appeared']+=1
                    continue
                c_conj=(not conj) or (np.conj(L[i,o]) in lamset); c_x=0<Xi[i,o]<xim; m1=gen.MPC(Phi[i,o]).real; m2=gen.MPD(Phi[i,o])
                keep=c_conj and c_x and m1>=mpc and m2<=mpd; kept=not np.isnan(r.Fn_poles[i,o])
                pat=[np.isnan(r.Fn_poles[i,o]),np.isnan(r.Xi_poles[i,o]),np.isnan(r.Phi_poles[i,o]).all(),np.isnan(r.Phi_poles[i,o]).any()]+([] if ispl else [np.isnan(r.Lambds[i,o])])
                if len(set(pat))!=1: stats['pattern mismatch']+=1
                if kept and not keep: stats['UNSOUND '+'+'.join(n_ for n_,c in [('conj',c_conj),('xi',c_x),('mpc',m1>=mpc),('mpd',m2<=mpd)] if not c)]+=1
                elif keep and not kept: stats['INCOMPLETE']+=1
                elif kept and (r.Fn_poles[i,o]!=f or r.Xi_poles[i,o]!=Xi[i,o]): stats['VALUE CHANGED']+=1
                else: stats['ok']+=1
    print(cls.__name__,round(time.time()-t,1),'s',dict(stats))
