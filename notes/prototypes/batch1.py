import quiet
import numpy as np, itertools, collections
from pyoma2.functions import ssi, fdd, gen
from pyoma2.setup import SingleSetup, MultiSetup_PreGER
from pyoma2.algorithms import SSIcov, SSIdat
rng=np.random.default_rng(0)
# (8) C03 split exhaustive n<=5
bad=0;n=0
for nch in range(1,6):
    for k in range(1,nch):
        for ref in itertools.permutations(range(nch),k):
            Y=[np.array([[100000*d+1000*c+t for c in range(nch)] for t in range(7)],float) for d in range(2)]
            Y0=[y.copy() for y in Y]
            out=gen.pre_multisetup(Y,[list(ref),list(ref)])
            for d in range(2):
                er=np.array([[100000*d+1000*c+t for t in range(7)] for c in ref],float)
                em=np.array([[100000*d+1000*c+t for t in range(7)] for c in range(nch) if c not in ref],float)
                n+=1
                if not (np.array_equal(out[d]['ref'],er) and np.array_equal(out[d]['mov'],em) and np.array_equal(Y[d],Y0[d])): bad+=1
print('C03 split',n,'bad',bad)
# full-reference case (no roving)
try: print('all-ref:',gen.pre_multisetup([np.zeros((5,2))],[[0,1]])[0]['mov'].shape)
except Exception as e: print('all-ref ->',type(e).__name__,e)
# (9) C12 dat Gram
worst=0
for l,r,br,N in itertools.product([1,2,3],[1,2],[1,2,4],[60,200]):
    if r>l: continue
    Y=rng.standard_normal((l,N)); Yr=Y[:r]
    H,_=ssi.build_hank(Y,Yr,br,'dat')
    p=br;q=p+1;Nn=N-p-q
    Yf=np.vstack([Y[:,q+1+i:Nn+q+i] for i in range(p+1)])/np.sqrt(Nn); Yp=np.vstack([Yr[:,q-j:Nn+q-1-j] for j in range(q)])/np.sqrt(Nn)
    G=Yf@Yp.T@np.linalg.solve(Yp@Yp.T,Yp@Yf.T)
    assert H.shape==((br+1)*l,(br+1)*r)
    worst=max(worst,np.max(abs(H@H.T-G))/np.max(abs(G)))
print('C12 dat gram worst',worst)
# (6) C13 bilinearity & psd
worst=0
for meth in ('per','cor'):
    X1=rng.standard_normal((3,700)); X2=rng.standard_normal((3,700)); R1=rng.standard_normal((2,700)); R2=rng.standard_normal((2,700))
    S=lambda a,b: fdd.SD_est(a,b,0.1,64,meth,0.25)[1]
    e1=np.max(abs(S(X1+X2,R1)-S(X1,R1)-S(X2,R1))); e2=np.max(abs(S(X1,R1+R2)-S(X1,R1)-S(X1,R2))); e3=np.max(abs(S(-2*X1,3*R1)+6*S(X1,R1)))
    worst=max(worst,e1,e2,e3)
    f,P=fdd.SD_est(X1,X1,0.1,64,'per',0.25); ev=min(np.linalg.eigvalsh(P[:,:,k]).min()/np.trace(P[:,:,k]).real for k in range(1,33))
print('C13 bilinear worst',worst,'min eig/trace',ev, 'hermitian',np.max(abs(P-np.conj(np.swapaxes(P,0,1)))))
# (7) C01 legacy SSI + exact H
from c01b import system, decay, mac
for m,l in [(1,2),(3,3),(6,8)]:
    fs=100.; fn,xi,lam,Phi,amp=system(m,l,'spread','graded',True,fs,1)
    zd=np.exp(lam/fs); n=2*m; br=n+1
    A=np.zeros((n,n)); C=np.zeros((l,n))
    for k in range(m):
        z=zd[k]; A[2*k:2*k+2,2*k:2*k+2]=[[z.real,z.imag],[-z.imag,z.real]]; C[:,2*k]=Phi[:,k].real; C[:,2*k+1]=Phi[:,k].imag
    G=rng.standard_normal((n,l))
    O=np.vstack([C@np.linalg.matrix_power(A,i) for i in range(br+1)]); Con=np.hstack([np.linalg.matrix_power(A,i)@G for i in range(br+1)]); H=O@Con
    for name in ('fast','legacy'):
        if name=='fast': Obs,AA,CC,*_=ssi.SSI_fast(H,br,n)
        else: AA,CC=ssi.SSI(H,br,n); Obs=None
        Fn,Xi_,Ph,L,*_=ssi.SSI_poles(Obs,AA,CC,n,1/fs)
        F=Fn[:,n]; ef=max(abs(F[np.nanargmin(abs(F-f))]-f)/f for f in fn); ex=max(abs(Xi_[np.nanargmin(abs(F-f)),n]-x)/x for f,x in zip(fn,xi))
        em=max(1-max(mac(Ph[np.nanargmin(abs(F-f)),n],Phi[:,j]),mac(Ph[np.nanargmin(abs(F-f)),n],Phi[:,j].conj())) for j,f in enumerate(fn))
        print('C01 exactH',m,l,name,'%.1e %.1e %.1e'%(ef,ex,em))
