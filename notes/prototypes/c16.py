import quiet
import numpy as np, time
import matplotlib; matplotlib.use('Agg')
from matplotlib.backends.backend_agg import FigureCanvasAgg
from matplotlib.backend_bases import MouseEvent, KeyEvent
import pyoma2.support.sel_from_plot as sfp
from pyoma2.algorithms import SSIcov
from pyoma2.algorithms.data.result import SSIResult
class FakeTk:
    script=None
    def __init__(self,*a,**k): pass
    def title(self,*a): pass
    def config(self,**k): pass
    def protocol(self,*a): pass
    def mainloop(self): FakeTk.script(FakeTk.sfp_obj)
    def quit(self): pass
    def destroy(self): pass
class FakeMenu:
    def __init__(self,*a,**k): pass
    def add_command(self,**k): pass
    def add_cascade(self,**k): pass
class FakeCanvas(FigureCanvasAgg):
    def __init__(self,fig,root): super().__init__(fig)
    def get_tk_widget(self):
        class W: 
            def pack(self,**k): pass
        return W()
    def draw_idle(self,*a,**k): pass
sfp.tk.Tk=FakeTk; sfp.tk.Menu=FakeMenu; sfp.FigureCanvasTkAgg=FakeCanvas; sfp.NavigationToolbar2Tk=lambda c,r: None
# capture object: patch _initialize_gui wrapper
orig=sfp.SelFromPlot._initialize_gui
def wrapped(self): orig(self); FakeTk.sfp_obj=self
sfp.SelFromPlot._initialize_gui=wrapped
def fire(obj,kind,**kw):
    c=obj.fig.canvas
    if kind=='key':
        ev=KeyEvent(kw['name'],c,kw['key']); c.callbacks.process(kw['name'],ev)
    else:
        ev=MouseEvent('button_press_event',c,0,0,button=kw['button']); ev.xdata=kw['x']; ev.ydata=kw['y']; ev.inaxes=obj.ax2
        c.callbacks.process('button_press_event',ev)
# designed table
Fn=np.array([[np.nan,5.0,5.1,5.05],[np.nan,np.nan,9.0,9.1],[np.nan,np.nan,np.nan,2.0]])
Xi=np.where(np.isnan(Fn),np.nan,0.01*(1+np.arange(12).reshape(3,4)))
Phi=np.where(np.isnan(Fn)[:,:,None],np.nan,(np.arange(24).reshape(3,4,2)+1.0)).astype(complex)
a=SSIcov(name='a',br=3,ordmax=3); a._set_data(np.zeros((10,2)),10.0)
a.result=SSIResult(Fn_poles=Fn,Xi_poles=Xi,Phi_poles=Phi,Lab=np.where(np.isnan(Fn),0,1))
def script(o):
    t=time.time()
    fire(o,'key',name='key_press_event',key='shift')
    fire(o,'mouse',button=1,x=9.05,y=2.9)   # pick (9.1, order 3)
    fire(o,'mouse',button=1,x=5.0,y=1.2)    # pick (5.0, order 1)
    print('after picks',o.sel_freq,o.pole_ind, 'dt',time.time()-t)
    try:
        fire(o,'mouse',button=2,x=5.2,y=0)
        print('after deselect-nearest',o.sel_freq,o.pole_ind)
    except Exception as e: print('deselect nearest ->',type(e).__name__,e)
FakeTk.script=script
a.mpe_from_plot(freqlim=(0,10),rtol=1e-2)
print('result Fn',a.result.Fn,'order_out',a.result.order_out,'Xi',a.result.Xi)
