import quiet
import numpy as np, itertools, time, collections, hashlib
from scipy import signal
from pyoma2.setup import SingleSetup, MultiSetup_PreGER
from pyoma2.functions.gen import pre_multisetup
rng=np.random.default_rng(0)
N=4096
def mk(nch): 
    t=np.arange(N)[:,None]; return rng.standard_normal((N,nch))+0.001*t+3.0
EV=[('dec',2,{}),('dec',3,{}),('dec',2,{'ftype':'fir'}),('dec',2,{'zero_phase':False}),('det',{}),('det',{'type':'constant'}),('fil','lowpass',0.3,4),('rb',)]
class Model:
    def __init__(s,datasets,fs,ref): s.init=[d.copy() for d in datasets]; s.fs0=fs; s.ref=ref; s.reset()
    def reset(s): s.ds=[d.copy() for d in s.init]; s.fs=s.fs0
    def apply(s,ev):
        if ev[0]=='dec': s.ds=[signal.decimate(d,ev[1],axis=0,**ev[2]) for d in s.ds]; s.fs=s.fs/ev[1]
        elif ev[0]=='det': s.ds=[signal.detrend(d,axis=0,**ev[1]) for d in s.ds]
        elif ev[0]=='fil':
            sos=signal.butter(ev[3],ev[2]*s.fs/2,btype=ev[1],output='sos',fs=s.fs); s.ds=[signal.sosfiltfilt(sos,d,axis=0) for d in s.ds]
        elif ev[0]=='rb': s.reset()
def impl_apply(o,ev,m):
    if ev[0]=='dec': o.decimate_data(q=ev[1],**ev[2])
    elif ev[0]=='det': o.detrend_data(**ev[1])
    elif ev[0]=='fil': o.filter_data(Wn=ev[2]*m.fs/2,order=ev[3],btype=ev[1])
    elif ev[0]=='rb': o.rollback()
def check_single(o,m):
    errs=[]
    if o.data.shape!=m.ds[0].shape or not np.allclose(o.data,m.ds[0],rtol=1e-10,atol=1e-12): errs.append('data')
    if abs(o.fs-m.fs)>1e-12*m.fs: errs.append('fs')
    if abs(o.dt-1/m.fs)>1e-12/m.fs: errs.append('dt')
    if o.Ndat!=len(m.ds[0]): errs.append('Ndat')
    if abs(o.T-len(m.ds[0])/m.fs)>1e-9*o.T: errs.append('T')
    return errs
def check_multi(o,m):
    errs=[]
    Y=pre_multisetup(m.ds,m.ref)
    for i,(a,b) in enumerate(zip(o.data,Y)):
        for k in ('ref','mov'):
            if a[k].shape!=b[k].shape or not np.allclose(a[k],b[k],rtol=1e-10,atol=1e-12): errs.append('data'); break
    if abs(o.fs-m.fs)>1e-12*m.fs: errs.append('fs')
    if abs(o.dt-1/m.fs)>1e-12/m.fs: errs.append('dt')
    if list(o.Ndats)!=[len(d) for d in m.ds]: errs.append('Ndats')
    if not np.allclose(o.Ts,[len(d)/m.fs for d in m.ds]): errs.append('Ts')
    return errs
for kind in ['single','multi']:
    out=collections.Counter(); t=time.time(); nh=0
    first={}
    for depth in range(1,4):
        for hist in itertools.product(range(len(EV)),repeat=depth):
            nh+=1
            if kind=='single':
                d=[mk(3)]; o=SingleSetup(d[0].copy(),100.); m=Model(d,100.,None)
            else:
                d=[mk(3),mk(2)]; ref=[[2,0],[1]]; o=MultiSetup_PreGER(fs=100.,ref_ind=ref,datasets=[x.copy() for x in d]); m=Model(d,100.,ref)
            for i in hist:
                ev=EV[i]
                try: m.apply(ev); mexc=None
                except Exception as e: mexc=e
                try: impl_apply(o,ev,m); iexc=None
                except Exception as e: iexc=e
                if (mexc is None)!=(iexc is None):
                    k='exc mismatch '+type(iexc or mexc).__name__; out[k]+=1; first.setdefault(k,[EV[j] for j in hist]); break
                if mexc: out['both reject']+=1; break
            else:
                errs=check_single(o,m) if kind=='single' else check_multi(o,m)
                k=','.join(errs) or 'ok'; out[k]+=1; first.setdefault(k,[EV[j] for j in hist])
    print(kind,nh,'histories',round(time.time()-t,1),'s')
    for k,v in out.most_common(): print('   ',k,v,'first:',first.get(k) if k!='ok' else '')
