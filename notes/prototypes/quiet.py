import os, logging, warnings
os.environ['TQDM_DISABLE']='1'
warnings.simplefilter('ignore')
import pyoma2
logging.disable(logging.CRITICAL)
