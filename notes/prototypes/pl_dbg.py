import quiet
import numpy as np
from pyoma2.setup import SingleSetup
from pyoma2.algorithms import pLSCF
rng=np.random.default_rng(0); t=np.arange(600)/50.; Y=np.column_stack([np.sin(2*np.pi*5*t+p)*a+np.sin(2*np.pi*11*t+2*p)*b for p,a,b in [(0,1,.5),(1,.7,-1),(2,-.4,.8)]])+0.3*rng.standard_normal((600,3))
for hc in [dict(conj=False,xi_max=1.0,mpc_lim=0.0,mpd_lim=10.0), dict(conj=False,xi_max=1.0,mpc_lim=-1.0,mpd_lim=10.0)]:
    ss=SingleSetup(Y,50.); a=pLSCF(name='p',ordmax=3,nxseg=64,hc=hc); ss.add_algorithms(a); ss.run_all()
    print(np.isnan(a.result.Fn_poles).sum(0), a.result.Fn_poles.shape)
    from pyoma2.functions import gen
import pyoma2.algorithms.plscf as ap
# look at raw
from pyoma2.functions import fdd, plscf
f,Sy=fdd.SD_est(Y.T,Y.T,1/50.,64,'per',0.5); Ad,Bn=plscf.pLSCF(Sy,1/50.,3,-1); Fn,Xi,Ph,L=plscf.pLSCF_poles(Ad,Bn,1/50.,'per',64)
print(np.round(Fn,2)); print(np.round(Xi,3)); 
print([ (gen.MPC(Ph[i,2]), gen.MPD(Ph[i,2])) for i in range(9) if not np.isnan(Fn[i,2])])
