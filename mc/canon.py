"""Canonical form of a live object's state: hash of the whole instance __dict__, generically.

Arrays by bytes, containers recursively, pydantic models by their fields, other objects by their
__dict__. Excluded: things that cannot feed back into behaviour (figures, axes, canvases, loggers,
callables, modules). An attribute added by a later change is therefore part of the state
automatically (over-fine only costs time; too coarse would hide bugs).
"""
import hashlib
import types

import numpy as np

_SKIP_TYPE_NAMES = (
    "Figure", "Axes", "Axes3D", "FigureCanvasAgg", "FigureCanvasBase", "Logger", "AxesSubplot",
)


def _skip(v):
    if isinstance(v, (types.FunctionType, types.MethodType, types.ModuleType, types.BuiltinFunctionType)):
        return True
    n = type(v).__name__
    if n in _SKIP_TYPE_NAMES:
        return True
    mod = type(v).__module__ or ""
    return mod.startswith("matplotlib") or mod.startswith("tkinter") or mod.startswith("logging")


def freeze(v, _depth=0, skip_names=()):
    """Nested tuples of primitives describing v (arrays replaced by digests)."""
    if _depth > 12:
        return ("deep",)
    if v is None or isinstance(v, (bool, int, str, bytes)):
        return v
    if isinstance(v, float):
        return ("f", repr(v))
    if isinstance(v, complex):
        return ("c", repr(v))
    if isinstance(v, np.generic):
        return ("g", v.dtype.str, repr(v.item()))
    if isinstance(v, np.ndarray):
        if v.dtype == object:
            return ("ndo", v.shape, tuple(freeze(x, _depth + 1) for x in v.ravel().tolist()))
        a = np.ascontiguousarray(v)
        return ("nd", a.dtype.str, a.shape, hashlib.sha1(a.tobytes()).hexdigest())
    if isinstance(v, dict):
        # insertion order is kept: behaviour may depend on it (run_all walks the algorithms dict in order); an over-fine
        # abstraction only costs time
        items = [(repr(k), freeze(x, _depth + 1, skip_names)) for k, x in v.items() if not _skip(x) and k not in skip_names]
        return ("d", tuple(items))
    if isinstance(v, (list, tuple)):
        return ("l", tuple(freeze(x, _depth + 1, skip_names) for x in v if not _skip(x)))
    if isinstance(v, (set, frozenset)):
        return ("s", tuple(sorted(repr(freeze(x, _depth + 1)) for x in v)))
    try:
        import pandas as pd

        if isinstance(v, (pd.DataFrame, pd.Series)):
            return ("pd", hashlib.sha1(v.to_json(orient="split", double_precision=15).encode()).hexdigest())
    except Exception:
        pass
    if _skip(v):
        return ("skip",)
    d = getattr(v, "__dict__", None)
    if d is not None:
        return ("o", type(v).__name__, freeze(dict(d), _depth + 1, skip_names))
    return ("r", type(v).__name__, repr(v))


def digest(v, skip_names=()):
    return hashlib.sha1(repr(freeze(v, skip_names=skip_names)).encode()).hexdigest()[:20]


def arr_digest(a):
    a = np.ascontiguousarray(a)
    return hashlib.sha1(a.tobytes()).hexdigest()[:16]
