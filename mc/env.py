"""Process environment owned by the explorer.

Imported first by ./check (before numpy): pins BLAS threads, head-less matplotlib, silences the
library's logging/tqdm, fixes the hash seed (by re-exec) and points the import system at the tree
under test (/repo/src, or $VERIF_REPO/src for mutation sweeps on scratch copies).
"""
import os
import sys

VERIF = os.path.dirname(os.path.dirname(os.path.abspath(__file__)))
REPO = os.environ.get("VERIF_REPO", "/repo")
GUARD = "PYOMA2_VERIF"


def pin():
    for k in ("OPENBLAS_NUM_THREADS", "OMP_NUM_THREADS", "MKL_NUM_THREADS", "NUMEXPR_NUM_THREADS"):
        os.environ[k] = "1"
    os.environ["MPLBACKEND"] = "Agg"
    os.environ["TQDM_DISABLE"] = "1"
    os.environ["PYOMA_LOG_LEVEL"] = "CRITICAL"
    os.environ[GUARD] = "1"
    if os.environ.get("PYTHONHASHSEED") != "0":
        os.environ["PYTHONHASHSEED"] = "0"
        os.execv(sys.executable, [sys.executable] + sys.argv)
    src = os.path.join(REPO, "src")
    if not os.path.isdir(os.path.join(src, "pyoma2")):
        sys.stderr.write(f"CHECK-ERROR no pyoma2 sources under {src}\n")
        sys.exit(2)
    sys.path.insert(0, src)
    if VERIF not in sys.path:
        sys.path.insert(0, VERIF)


def quiet():
    """Import the library and silence it. Returns the module path actually imported."""
    import logging
    import warnings

    warnings.simplefilter("ignore")
    import matplotlib

    matplotlib.use("Agg")
    import pyoma2

    logging.disable(logging.CRITICAL)
    import numpy as np

    np.seterr(all="ignore")
    # tqdm guards its instance registry with a multiprocessing lock that forked workers would share (every tqdm(...) in the
    # library - SSI_mpe, SSI_poles, build_hank - then serialises the 16 workers); a per-process thread lock is all we need
    try:
        import threading

        import tqdm

        tqdm.tqdm.set_lock(threading.RLock())
    except Exception:
        pass
    got = os.path.dirname(os.path.dirname(os.path.abspath(pyoma2.__file__)))
    want = os.path.join(REPO, "src")
    if os.path.realpath(got) != os.path.realpath(want):
        sys.stderr.write(f"CHECK-ERROR pyoma2 imported from {got}, expected {want}\n")
        sys.exit(2)
    return got


def seed():
    try:
        return int(os.environ.get("VERIF_SEED", "0"))
    except ValueError:
        return 0
