"""Payload alphabet: deterministic, counter-based real numbers (SHA-256), independent of numpy's RNG.

payload(seed, tag, n) -> n floats in (-1, 1), no two equal, none within 1e-3 of 0 unless asked.
VERIF_SEED selects the alphabet; the configuration space around it is always enumerated completely.
"""
import hashlib
import struct

import numpy as np


def _u(seed, tag, i):
    h = hashlib.sha256(f"{seed}|{tag}|{i}".encode()).digest()
    return struct.unpack(">Q", h[:8])[0] / 2.0**64  # [0,1)


def uniform(seed, tag, n, lo=0.0, hi=1.0):
    return np.array([lo + (hi - lo) * _u(seed, tag, i) for i in range(n)])


def normal(seed, tag, shape):
    """Box-Muller on the counter stream; array of the given shape."""
    n = int(np.prod(shape))
    m = (n + 1) // 2
    if n > 4096:
        # long records: SHA-256 seeds a counter-mode stream expanded with shake (still numpy-RNG free)
        raw = hashlib.shake_256(f"{seed}|{tag}|N".encode()).digest(16 * m)
        ints = np.frombuffer(raw, dtype=">u8").astype(np.float64)
        u1 = (ints[0::2] + 1.0) / (2.0**64 + 2.0)
        u2 = ints[1::2] / 2.0**64
    else:
        u1 = np.array([(_u(seed, tag, 2 * i) * (1 - 2e-16)) + 1e-16 for i in range(m)])
        u2 = np.array([_u(seed, tag, 2 * i + 1) for i in range(m)])
    r = np.sqrt(-2 * np.log(u1))
    z = np.concatenate([r * np.cos(2 * np.pi * u2), r * np.sin(2 * np.pi * u2)])[:n]
    return z.reshape(shape)


def entries(seed, tag, shape, lo=0.2, hi=1.0, signed=True):
    """Non-degenerate entries: moduli in [lo, hi] all distinct (injective perturbation), random signs."""
    n = int(np.prod(shape))
    u = uniform(seed, tag + "/m", n)
    # injective perturbation: rank-based spread so that no two moduli tie
    order = np.argsort(np.argsort(u))
    mod = lo + (hi - lo) * (0.7 * u + 0.3 * (order + 0.5) / n)
    if signed:
        s = np.where(uniform(seed, tag + "/s", n) < 0.5, -1.0, 1.0)
        mod = mod * s
    return mod.reshape(shape)


def cplx(seed, tag, shape, lo=0.2, hi=1.0, phase_spread=np.pi):
    mod = entries(seed, tag, shape, lo, hi, signed=False)
    ph = uniform(seed, tag + "/p", int(np.prod(shape)), -phase_spread, phase_spread).reshape(shape)
    return mod * np.exp(1j * ph)


def unitary(seed, tag, n, complex_=True):
    a = normal(seed, tag + "/re", (n, n))
    if complex_:
        a = a + 1j * normal(seed, tag + "/im", (n, n))
    q, r = np.linalg.qr(a)
    d = np.diag(r)
    return q * (d / np.abs(d))


def choice(seed, tag, seq):
    return seq[int(_u(seed, tag, 0) * len(seq)) % len(seq)]
