"""Explicit-state breadth-first search over event histories of the real object.

A state is the event history reaching it; live objects are rebuilt by replay in the worker.
`runner(hist)` (module-level function of the check) must build a fresh real object and the reference
model, replay `hist` on both in lock step, judge the LAST transition (earlier ones were judged when
their own history was expanded) and return (Tally, canonical_key).
"""
import itertools

from .core import Tally

_RUNNER = None
_NEV = 0


def _expand(hist):
    t = Tally()
    keys = []
    for i in range(_NEV):
        tt, k = _RUNNER(tuple(hist) + (i,))
        t.merge(tt)
        t.transitions += 1
        keys.append(k)
    return t, keys


def _single(hist):
    tt, k = _RUNNER(tuple(hist))
    tt.transitions += 1
    return tt, k


def merged(ctx, runner, n_events, depth, label=""):
    """Level-synchronous BFS with state merging by canonical key. Returns {key: representative history}."""
    global _RUNNER, _NEV
    _RUNNER, _NEV = runner, n_events
    from . import core

    core.close_pool()  # workers must see the runner just installed (fork)
    t0, k0 = runner(())
    ctx.tally.merge(t0)
    seen = {k0: ()}
    frontier = [()]
    per_depth = {0: 1}
    for d in range(1, depth + 1):
        res = ctx.pmap(_expand, frontier, chunksize=1)
        nxt = []
        for hist, r in zip(frontier, res):
            if r is None:
                continue
            _, keys = r
            for i, k in enumerate(keys):
                if k is None:
                    continue
                if k not in seen:
                    seen[k] = tuple(hist) + (i,)
                    nxt.append(tuple(hist) + (i,))
        per_depth[d] = len(nxt)
        frontier = nxt
        if not frontier:
            break
    ctx.tally.states += len(seen)
    for d, n in per_depth.items():
        ctx.tally.states_per_depth[f"{label}depth{d}"] = n
    return seen


def unmerged(ctx, runner, n_events, depth, label=""):
    """Every history up to `depth` on a fresh object; plus the congruence check of the canonical key:
    equal keys must have equal successors under every event (else behaviour depends on state the
    key does not see - reported by the caller as hidden state)."""
    global _RUNNER, _NEV
    _RUNNER, _NEV = runner, n_events
    from . import core

    core.close_pool()
    hists = [()]
    for d in range(1, depth + 1):
        hists += list(itertools.product(range(n_events), repeat=d))
    res = ctx.pmap(_single, hists)
    key = {}
    for h, r in zip(hists, res):
        if r is not None:
            key[h] = r[1]
    ctx.tally.extra[f"{label}unmerged_histories"] = len(hists)
    # congruence
    by_key = {}
    broken = []
    for h in hists:
        if len(h) >= depth or h not in key:
            continue
        k = key[h]
        if k is None:
            continue
        succ = tuple(key.get(h + (i,)) for i in range(n_events))
        if k in by_key:
            h0, s0 = by_key[k]
            if s0 != succ:
                broken.append((h0, h, [i for i in range(n_events) if s0[i] != succ[i]]))
        else:
            by_key[k] = (h, succ)
    ctx.tally.extra[f"{label}congruence_classes_checked"] = len(by_key)
    return key, broken
