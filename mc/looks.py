"""Looking at things: the read-only operations a user performs between the steps of an analysis.

Every public `plot_*` method of a setup or of an algorithm object is a legal operation that must not change what the analysis
returns (the data handed to the algorithms, the stored result tables, the run parameters). The checks interleave these calls
before a judged step - on a fixed, index-determined subset of their cases, because drawing is slow - so that "run, look, then
extract / read" is part of the explored space and not only "run, then extract / read".

Nothing here judges a drawing (that is C20's business); an exception raised by a plot method is returned to the caller, which
counts it, and is otherwise ignored. Geometry plots are left out (they need a geometry; C19 covers them).
"""
import inspect


def _close():
    try:
        import matplotlib.pyplot as plt

        plt.close("all")
    except Exception:
        pass


def _call(obj, name, offered):
    fn = getattr(obj, name)
    try:
        params = inspect.signature(fn).parameters
    except (TypeError, ValueError):
        params = {}
    kw = {k: v for k, v in offered.items() if k in params}
    try:
        fn(**kw)
        return name, None
    except Exception as e:  # noqa: BLE001 - not judged here
        return name, f"{type(e).__name__}: {e}"
    finally:
        _close()


def _plot_methods(obj, skip=()):
    out = []
    for name in sorted(dir(type(obj))):
        if not name.startswith("plot_") or "geo" in name or name in skip:
            continue
        if callable(getattr(obj, name, None)):
            out.append(name)
    return out


def look_at_setup(setup, form=0, band=None, nxseg=64):
    """Call every data plot of a setup (plot_data, plot_ch_info, plot_STFT). `form` rotates the legal ways of asking:
    all channels ("all", the default) or an explicit list; with or without a frequency window. Returns [(name, error or None)]."""
    nch = None
    try:
        d = setup.data
        nch = d.shape[1] if hasattr(d, "shape") else None
    except Exception:
        pass
    offered = {"nxseg": nxseg, "ch_idx": "all" if form % 2 == 0 or not nch else list(range(nch)), "show_rms": bool(form % 2)}
    if band is not None and form % 3 != 2:
        offered["freqlim"] = tuple(band)
    return [_call(setup, n, offered) for n in _plot_methods(setup)]


def look_at_alg(alg, form=0, band=None, skip=("plot_EFDDfit",)):
    """Call every plot method of an algorithm object that has been run (stabilisation chart, cluster chart, singular values of
    the Hankel matrix, CMIF). `band`: a frequency window (it should leave some poles outside); `form` rotates hide_poles and
    whether the window is given. Returns [(name, error or None)]."""
    offered = {"hide_poles": bool(form % 2)}
    if band is not None and form % 3 != 2:
        offered["freqlim"] = tuple(band)
    return [_call(alg, n, offered) for n in _plot_methods(alg, skip)]
