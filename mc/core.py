"""Explorer core: tallies, worker pool, evidence, known findings, replay files, verdict.

A check module (checks/cNN.py) provides
    ID, TECHNIQUE, RULE, ASSUMPTIONS
    explore(ctx)            enumerate the stated space completely, ctx.tally collects everything
    replay(case) -> Tally   re-execute one case (no explorer)
"""
import collections
import fnmatch
import hashlib
import json
import multiprocessing as mp
import os
import subprocess
import sys
import time
import traceback

from . import env

MAX_KEYS_REPORTED = 12
MAX_SAMPLES = 6


def _jsonable(o):
    import numpy as np

    if isinstance(o, dict):
        return {str(k): _jsonable(v) for k, v in o.items()}
    if isinstance(o, (list, tuple)):
        return [_jsonable(v) for v in o]
    if isinstance(o, (set, frozenset)):
        return sorted(_jsonable(v) for v in o)
    if isinstance(o, np.ndarray):
        return _jsonable(o.tolist())
    if isinstance(o, np.generic):
        return _jsonable(o.item())
    if isinstance(o, complex):
        return {"re": o.real, "im": o.imag}
    if isinstance(o, float):
        if o != o:
            return "NaN"
        if o in (float("inf"), float("-inf")):
            return "inf" if o > 0 else "-inf"
        return o
    if isinstance(o, (str, int, bool)) or o is None:
        return o
    return repr(o)


class Tally:
    """Mergeable record of what a piece of exploration did and saw."""

    def __init__(self):
        self.states = 0            # configurations / canonical states enumerated
        self.transitions = 0       # implementation steps executed and judged
        self.validated = 0         # steps on which reference-model output was compared with the implementation's
        self.evaluations = 0       # library calls / cases executed
        self.nontrivial = set()    # ids of distinct non-trivial cases (by the check's RULE)
        self.outcomes = collections.Counter()
        self.skipped_by_guard = 0
        self.not_judged = 0
        self.max_err = {}
        self.violations = collections.OrderedDict()   # key -> [count, msg, case]
        self.samples = []
        self.caps_hit = []
        self.states_per_depth = {}
        self.extra = {}

    def violation(self, key, msg, case):
        if key in self.violations:
            self.violations[key][0] += 1
        else:
            self.violations[key] = [1, msg, _jsonable(case)]

    def err(self, name, value):
        try:
            value = float(value)
        except Exception:
            return
        if value == value and value > self.max_err.get(name, -1.0):
            self.max_err[name] = value

    def sample(self, s):
        if len(self.samples) < MAX_SAMPLES:
            self.samples.append(_jsonable(s))

    def merge(self, o):
        if o is None:
            return self
        self.states += o.states
        self.transitions += o.transitions
        self.validated += o.validated
        self.evaluations += o.evaluations
        self.nontrivial |= o.nontrivial
        self.outcomes.update(o.outcomes)
        self.skipped_by_guard += o.skipped_by_guard
        self.not_judged += o.not_judged
        for k, v in o.max_err.items():
            self.err(k, v)
        for k, (n, msg, case) in o.violations.items():
            if k in self.violations:
                self.violations[k][0] += n
            else:
                self.violations[k] = [n, msg, case]
        for s in o.samples:
            self.sample(s)
        self.caps_hit += [c for c in o.caps_hit if c not in self.caps_hit]
        for d, n in o.states_per_depth.items():
            self.states_per_depth[d] = self.states_per_depth.get(d, 0) + n
        for k, v in o.extra.items():
            if isinstance(v, (int, float)) and isinstance(self.extra.get(k, 0), (int, float)):
                self.extra[k] = self.extra.get(k, 0) + v
            else:
                self.extra[k] = v
        return self


# ----------------------------------------------------------------------------------------------
# worker pool

_POOL = None


def _in_library(tb_text):
    return "/pyoma2/" in tb_text


def _guarded(args):
    func, item = args
    try:
        return ("ok", func(item))
    except Exception as e:  # harness or library failure outside the check's own handling
        tb = traceback.format_exc()
        where = "?"
        for fr in reversed(traceback.extract_tb(e.__traceback__)):
            if "/pyoma2/" in fr.filename:
                where = f"{os.path.basename(fr.filename)}:{fr.name}"
                break
        return ("exc", type(e).__name__, where, tb, _jsonable(item))


def nworkers():
    try:
        n = int(os.environ.get("VERIF_WORKERS", "0"))
    except ValueError:
        n = 0
    return n or min(16, os.cpu_count() or 1)


def pool():
    global _POOL
    if _POOL is None:
        _POOL = mp.get_context("fork").Pool(nworkers())
    return _POOL


def close_pool():
    global _POOL
    if _POOL is not None:
        _POOL.terminate()
        _POOL.join()
        _POOL = None


class CheckError(Exception):
    pass


class Ctx:
    def __init__(self, prop, tier, seed):
        self.prop = prop
        self.tier = tier
        self.seed = seed
        self.thorough = tier == "thorough"
        self.tally = Tally()
        self.bounds = {}
        self.required_outcomes = []
        self.guard_share_limit = 0.5
        self.t0 = time.time()
        self.exhaustive = True

    def pmap(self, func, items, chunksize=None, serial=False):
        """Ordered parallel map; Tally results are merged into ctx.tally and also returned."""
        items = list(items)
        if not items:
            return []
        _t0 = time.time()
        if serial or nworkers() == 1 or len(items) == 1:
            raw = [_guarded((func, it)) for it in items]
        else:
            if chunksize is None:
                chunksize = max(1, min(64, len(items) // (nworkers() * 8) or 1))
            raw = pool().map(_guarded, [(func, it) for it in items], chunksize)
        if os.environ.get("VERIF_DEBUG_TIMING"):
            sys.stderr.write(f"[pmap {getattr(func, '__name__', func)}] {len(items)} items mapped in {time.time() - _t0:.1f}s\n")
        out = []
        for r in raw:
            if r[0] == "ok":
                v = r[1]
                if isinstance(v, Tally):
                    self.tally.merge(v)
                elif isinstance(v, tuple) and v and isinstance(v[0], Tally):
                    self.tally.merge(v[0])
                out.append(v)
            else:
                _, etype, where, tb, item = r
                if _in_library(tb) and where != "?":
                    self.tally.violation(
                        f"crash:{etype}@{where}",
                        f"library raised {etype} in {where} on a case the harness did not expect to fail:\n{tb[-1500:]}",
                        {"crash_item": item},
                    )
                    out.append(None)
                else:
                    raise CheckError(f"harness exception in worker:\n{tb}")
        return out

    def require(self, *outcomes):
        self.required_outcomes += list(outcomes)


# ----------------------------------------------------------------------------------------------
# known findings

def load_findings(prop):
    path = os.path.join(env.VERIF, "KNOWN_FINDINGS.txt")
    out = []
    if not os.path.exists(path):
        return out
    for line in open(path):
        line = line.strip()
        if not line.startswith("finding:"):
            continue
        head, _, text = line[len("finding:"):].partition("::")
        kv = dict(tok.split("=", 1) for tok in head.split() if "=" in tok)
        if kv.get("property") == prop and "key" in kv:
            out.append((kv["key"], text.strip()))
    return out


def split_known(prop, violations):
    listed = load_findings(prop)
    known = collections.OrderedDict((k, [0, text]) for k, text in listed)
    new = collections.OrderedDict()
    for key, rec in violations.items():
        for pat in known:
            if fnmatch.fnmatchcase(key, pat):
                known[pat][0] += rec[0]
                break
        else:
            new[key] = rec
    return known, new


# ----------------------------------------------------------------------------------------------
# evidence, replay files, verdict

def write_replay(prop, key, rec, seed, tier):
    base = os.environ.get("VERIF_REPLAY_DIR") or (os.path.join(env.VERIF, "replays") if env.REPO == "/repo" else "/root/scratch/replays")
    d = os.path.join(base, prop)
    os.makedirs(d, exist_ok=True)
    n, msg, case = rec
    body = {"property": prop, "key": key, "message": msg, "count_in_run": n, "seed": seed, "tier": tier, "case": case,
            "replay_cmd": f"./check {prop} --replay <this file>"}
    h = hashlib.sha1(json.dumps([key, case], sort_keys=True, default=str).encode()).hexdigest()[:12]
    path = os.path.join(d, f"{h}.json")
    with open(path, "w") as f:
        json.dump(body, f, indent=1, default=str)
    return path


def write_evidence(mod, ctx, n_new, known):
    t = ctx.tally
    cov = {
        "states": int(t.states),
        "transitions": int(t.transitions),
        "traces_validated_against_impl": int(t.validated),
        "samples": t.samples or [{"note": "no sample recorded"}],
        "evaluations": int(t.evaluations or t.transitions),
        "distinct_nontrivial": len(t.nontrivial),
        "rule": getattr(mod, "RULE", ""),
        "exhaustive": bool(ctx.exhaustive and not t.caps_hit),
        "bounds": _jsonable(ctx.bounds),
        "states_per_depth": _jsonable(t.states_per_depth),
        "distinct_outcomes": _jsonable(dict(t.outcomes)),
        "skipped_by_guard": int(t.skipped_by_guard),
        "not_judged": int(t.not_judged),
        "max_observed_error": _jsonable(t.max_err),
        "caps_hit": t.caps_hit,
        "known_findings_seen": {k: v[0] for k, v in known.items()},
        "technique": getattr(mod, "TECHNIQUE", ""),
        "tree_under_test": env.REPO,
        "workers": nworkers(),
    }
    cov.update(_jsonable(t.extra))
    ev = {
        "property_id": ctx.prop,
        "tier": ctx.tier,
        "seed": int(ctx.seed),
        "level": "model_checking",
        "coverage": cov,
        "assumptions": list(getattr(mod, "ASSUMPTIONS", [])),
        "wall_s": round(time.time() - ctx.t0, 2),
        "violations": int(n_new),
    }
    d = os.path.join(env.VERIF, "evidence")
    os.makedirs(d, exist_ok=True)
    out = os.environ.get("VERIF_EVIDENCE_DIR", d)
    os.makedirs(out, exist_ok=True)
    with open(os.path.join(out, f"{ctx.prop}.json"), "w") as f:
        json.dump(ev, f, indent=1)
    return ev


def run_check(mod, tier, seed):
    ctx = Ctx(mod.ID, tier, seed)
    status = 0
    try:
        mod.explore(ctx)
    except CheckError as e:
        sys.stderr.write(f"CHECK-ERROR property={mod.ID} {e}\n")
        status = 2
    finally:
        close_pool()
    t = ctx.tally
    known, new = split_known(mod.ID, t.violations)
    for pat, (n, text) in known.items():
        if n:
            print(f"KNOWN-FINDING: property={mod.ID} {text} [class {pat}, {n} case(s) in this run]")
        else:
            print(f"KNOWN-FINDING-NOT-SEEN: property={mod.ID} class {pat} produced no failing case in this run")
    reported = 0
    for key, rec in list(new.items())[:MAX_KEYS_REPORTED]:
        path = write_replay(mod.ID, key, rec, seed, tier)
        note = confirm(mod.ID, path, key)
        print(f"VIOLATION property={mod.ID} replay={path}")
        print(f"  class={key} cases={rec[0]} {note}\n  {rec[1].splitlines()[0][:300] if rec[1] else ''}")
        reported += 1
    if len(new) > MAX_KEYS_REPORTED:
        print(f"  ... {len(new) - MAX_KEYS_REPORTED} further violation classes not written out")
    # vacuity and guard monitors (only meaningful when nothing else is wrong)
    if status == 0 and not new:
        missing = [o for o in ctx.required_outcomes if t.outcomes.get(o, 0) == 0]
        if missing:
            sys.stderr.write(f"CHECK-ERROR property={mod.ID} vacuous: mechanisms never exercised: {missing}\n")
            status = 2
        tot = t.skipped_by_guard + t.evaluations
        if tot and t.skipped_by_guard > ctx.guard_share_limit * tot:
            sys.stderr.write(f"CHECK-ERROR property={mod.ID} guards rejected {t.skipped_by_guard} of {tot} cases\n")
            status = 2
    ev = write_evidence(mod, ctx, len(new), known)
    c = ev["coverage"]
    print(f"[{mod.ID} {tier} seed={seed}] states={c['states']} transitions={c['transitions']} validated={c['traces_validated_against_impl']} "
          f"evaluations={c['evaluations']} nontrivial={c['distinct_nontrivial']} outcomes={len(c['distinct_outcomes'])} "
          f"skipped_by_guard={c['skipped_by_guard']} not_judged={c['not_judged']} violations={len(new)} wall={ev['wall_s']}s")
    if new:
        return 1
    return status


def confirm(prop, path, key):
    """Re-execute the violating case from its replay file in a fresh process."""
    if os.environ.get("VERIF_NO_CONFIRM"):
        return "(not re-executed)"
    try:
        r = subprocess.run([sys.executable, os.path.join(env.VERIF, "check"), prop, "--replay", path],
                           capture_output=True, text=True, timeout=600)
    except Exception as e:
        return f"(re-execution failed to start: {e})"
    if r.returncode == 1 and f"key={key}" in r.stdout:
        return "(re-executed from the replay file in a fresh process: same violation)"
    if r.returncode == 1:
        return "(re-executed in a fresh process: violates, with a different class key)"
    return ("(NOT reproduced by the single-case replay in a fresh process: the failure depends on what was executed "
            "before it in the exploring process - history-dependent behaviour)")


def run_replay(mod, path):
    body = json.load(open(path))
    case = body["case"]
    t = mod.replay(case)
    known, new = split_known(mod.ID, t.violations)
    for key, rec in t.violations.items():
        tag = "listed" if key not in new else "unlisted"
        print(f"REPLAY property={mod.ID} key={key} verdict=violation ({tag})\n  {rec[1]}")
    if not t.violations:
        print(f"REPLAY property={mod.ID} verdict=holds")
    return 1 if new else 0
