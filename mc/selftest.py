"""./check --selftest : the framework has nothing to build; verify that it can run here, offline."""
import json
import os
import shutil
import subprocess
import sys
import tempfile

from . import env


def main():
    env.quiet()
    import importlib

    import numpy  # noqa: F401
    import scipy  # noqa: F401

    man = json.load(open(os.path.join(env.VERIF, "MANIFEST.json")))
    ids = [c["property_id"] for c in man["checks"]]
    for pid in ids:
        importlib.import_module(f"checks.{pid.lower()}")
    props = [json.loads(l)["id"] for l in open(os.path.join(env.VERIF, "properties.jsonl"))]
    na = [x["property_id"] for x in man.get("not_applicable", [])]
    missing = [p for p in props if p not in ids and p not in na]
    if missing:
        print("selftest: properties neither claimed nor listed as not_applicable:", missing)
        return 1
    # schema validation of a dry evidence file and of the manifest (tooling venv has jsonschema)
    vt = shutil.which("python3-vt")
    if vt:
        from . import core

        class M:
            ID, RULE, TECHNIQUE, ASSUMPTIONS = "C00", "dry", "dry", []

        d = tempfile.mkdtemp()
        os.environ["VERIF_EVIDENCE_DIR"] = d
        ctx = core.Ctx("C00", "quick", 0)
        ctx.tally.states = ctx.tally.transitions = 1
        ctx.tally.sample({"dry": True})
        core.write_evidence(M, ctx, 0, {})
        code = (
            "import json,jsonschema,sys;"
            "jsonschema.validate(json.load(open(sys.argv[1])),json.load(open('/root/.vp/EVIDENCE.schema.json')));"
            "jsonschema.validate(json.load(open(sys.argv[2])),json.load(open('/root/.vp/MANIFEST.schema.json')));print('schemas ok')"
        )
        if os.path.exists("/root/.vp/EVIDENCE.schema.json"):
            r = subprocess.run([vt, "-c", code, os.path.join(d, "C00.json"), os.path.join(env.VERIF, "MANIFEST.json")], capture_output=True, text=True)
            shutil.rmtree(d, ignore_errors=True)
            if r.returncode != 0:
                print("selftest: schema validation failed\n", r.stdout, r.stderr)
                return 1
    print(f"selftest ok: {len(ids)} checks importable, tree {env.REPO}")
    return 0
