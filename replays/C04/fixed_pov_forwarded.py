#!/venv/bin/python
"""Regression script for the repaired C04 defect (no explorer import).

fdd.SD_PreGER did not forward `pov` to SD_est: for pov != 0.5 the merged matrix of setups cut from one
recording differed from the single-setup matrix by ~30 % (it was the estimate for overlap 0.5).
Fixed by /repo commit 5a07638.  usage: PYTHONPATH=<tree>/src /venv/bin/python fixed_pov_forwarded.py ; exit 0 = repaired
"""
import os
import sys

os.environ.setdefault("TQDM_DISABLE", "1")
import numpy as np  # noqa: E402
from pyoma2.functions import fdd  # noqa: E402

N, fs, nxseg = 832, 50.0, 128
t = np.arange(N)[:, None]
X = np.sin(0.37 * (1 + np.arange(4)) * t ** 2 / 7.0) + 0.5 * np.cos(0.11 * (2 + np.arange(4)) * t ** 1.5)   # 4 broadband channels
Y = [{"ref": X[:, :1].T, "mov": X[:, 1:2].T}, {"ref": X[:, :1].T, "mov": X[:, 2:4].T}]                      # reference 0; roving 1 | 2,3
bad = 0
for pov in (0.0, 0.25, 0.5, 0.75):
    f, S = fdd.SD_PreGER(Y, fs, nxseg=nxseg, pov=pov, method="per")
    f1, S1 = fdd.SD_est(X.T, X[:, :1].T, 1 / fs, nxseg, method="per", pov=pov)
    dev = np.max(np.abs(S[:, :, 1:] - S1[:, :, 1:])) / np.max(np.abs(S1[:, :, 1:]))
    print(f"pov={pov}: freq equal={np.array_equal(f, f1)}  max deviation from the single-setup matrix = {dev:.3g}")
    bad += not (dev <= 1e-8 and np.array_equal(f, f1))
print("REPAIRED" if not bad else "DEFECT PRESENT: the overlap setting is not used by SD_PreGER")
sys.exit(1 if bad else 0)
