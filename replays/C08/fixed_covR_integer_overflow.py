#!/venv/bin/python
"""Regression script (no explorer): SSIcov(method='cov_R') on integer-typed records must be invariant under an integer gain.
Before the fix the lagged correlations were accumulated in int64 and wrapped around for |counts*gain|^2 * Ndat > 2^63."""
import os, sys
os.environ["TQDM_DISABLE"] = "1"
import numpy as np
from pyoma2.functions import ssi
rng = np.random.RandomState(0)
x = np.cumsum(rng.standard_normal((2000, 3)), axis=0)
Y = np.round(x / np.abs(x).max() * (2**23 - 1)).astype(np.int64).T
H1, _ = ssi.build_hank(Y, Y, 6, "cov_R")
H2, _ = ssi.build_hank(Y * 1000, Y * 1000, 6, "cov_R")
err = np.max(np.abs(H2 / 1e6 - H1)) / np.max(np.abs(H1))
print("relative difference of the Toeplitz matrices under an integer gain of 1000:", err)
sys.exit(0 if err < 1e-12 else 1)
